package rules

import (
	"fmt"
	"sort"
	"strings"

	"golang.org/x/tools/go/ssa"

	"verif/internal/core"
)

// utf8Chain: a constant byte-range chain lead, cont... as built by nested AddByteRange calls.
type utf8Chain [][2]int

// wellFormedUTF8: Table 3-7 of the Unicode standard without the ASCII row.
var wellFormedUTF8 = []utf8Chain{
	{{0xC2, 0xDF}, {0x80, 0xBF}},
	{{0xE0, 0xE0}, {0xA0, 0xBF}, {0x80, 0xBF}},
	{{0xE1, 0xEC}, {0x80, 0xBF}, {0x80, 0xBF}},
	{{0xED, 0xED}, {0x80, 0x9F}, {0x80, 0xBF}},
	{{0xEE, 0xEF}, {0x80, 0xBF}, {0x80, 0xBF}},
	{{0xF0, 0xF0}, {0x90, 0xBF}, {0x80, 0xBF}, {0x80, 0xBF}},
	{{0xF1, 0xF3}, {0x80, 0xBF}, {0x80, 0xBF}, {0x80, 0xBF}},
	{{0xF4, 0xF4}, {0x80, 0x8F}, {0x80, 0xBF}, {0x80, 0xBF}},
}

// chainSet: canonical description of the set of byte sequences a list of chains accepts: for every lead byte,
// the sorted list of "length/second-byte-range/..." strings after splitting chains per lead byte.
func chainSet(chains []utf8Chain) map[int][]string {
	out := map[int][]string{}
	for _, ch := range chains {
		if len(ch) == 0 {
			continue
		}
		for lead := ch[0][0]; lead <= ch[0][1]; lead++ {
			var parts []string
			for _, r := range ch[1:] {
				parts = append(parts, fmt.Sprintf("%02X-%02X", r[0], r[1]))
			}
			out[lead] = append(out[lead], strings.Join(parts, " "))
		}
	}
	for k := range out {
		sort.Strings(out[k])
	}
	return out
}

func init() {
	core.Register(&core.Rule{
		Name: "R-UTFTABLE",
		Doc: "The constant table of 'any non-ASCII code point' is the standard's table of well-formed UTF-8. nfa.buildUTF8NonASCIIBranches builds, from constants only, the byte-range chains used when a class covers all of non-ASCII Unicode (\\W, \\D, \\S, [^x]). The chains are read off the SSA form (nested AddByteRange(lo, hi, next) calls with constant bounds, the local helper closure for a continuation byte inlined) and compared, lead byte by lead byte, with Table 3-7 of the Unicode standard: C2-DF 80-BF; E0 A0-BF 80-BF; E1-EC 80-BF 80-BF; ED 80-9F 80-BF; EE-EF 80-BF 80-BF; F0 90-BF 80-BF 80-BF; F1-F3 80-BF 80-BF 80-BF; F4 80-8F 80-BF 80-BF. Merging E1-EC, ED and EE-EF into E1-EF drops the surrogate exclusion: ED A0 80 is then one character instead of three U+FFFD, ^\\W$ matches it and FindAll spans differ (C15: ill-formed input consumed as regexp does). A non-constant bound makes the comparison undecided.",
		Min: 1, NeedSSA: true,
		Run: func(p *core.Prog) *core.RuleResult {
			res := &core.RuleResult{}
			pk := p.SSAPkg("nfa")
			if pk == nil {
				res.Fatal = append(res.Fatal, "package nfa not found")
				return res
			}
			var target *ssa.Function
			for _, fn := range p.SrcFuncs() {
				if fn.Pkg == pk && fn.Name() == "buildUTF8NonASCIIBranches" {
					target = fn
				}
			}
			if target == nil {
				res.Fatal = append(res.Fatal, "nfa.buildUTF8NonASCIIBranches not found")
				return res
			}
			o := core.Obligation{Key: "R-UTFTABLE|" + core.FuncName(target) + "|chains equal the table of well-formed UTF-8", Pos: p.Pos(target.Pos()), Nontrivial: true}
			endState := ssa.Value(nil)
			for _, prm := range target.Params {
				if strings.HasSuffix(prm.Type().String(), "nfa.StateID") {
					endState = prm
				}
			}
			undecided := ""
			// chainOf: the ranges from value v (a state id) down to endState
			var chainOf func(v ssa.Value, env map[ssa.Value]ssa.Value, d int) (utf8Chain, bool)
			chainOf = func(v ssa.Value, env map[ssa.Value]ssa.Value, d int) (utf8Chain, bool) {
				if d > 8 {
					return nil, false
				}
				if r, ok := env[v]; ok {
					v = r
				}
				if v == endState {
					return utf8Chain{}, true
				}
				c, ok := v.(*ssa.Call)
				if !ok {
					return nil, false
				}
				if cal := c.Call.StaticCallee(); cal != nil && cal.Name() == "AddByteRange" && len(c.Call.Args) == 4 {
					lo, ok1 := constInt(resolve(c.Call.Args[1], env))
					hi, ok2 := constInt(resolve(c.Call.Args[2], env))
					if !ok1 || !ok2 {
						undecided = "non-constant bound at " + p.Pos(c.Pos())
						return nil, false
					}
					rest, ok := chainOf(c.Call.Args[3], env, d+1)
					if !ok {
						return nil, false
					}
					return append(utf8Chain{{int(lo), int(hi)}}, rest...), true
				}
				// the local helper closure: one AddByteRange whose next is the closure's parameter
				var clo *ssa.Function
				switch f := c.Call.Value.(type) {
				case *ssa.MakeClosure:
					clo, _ = f.Fn.(*ssa.Function)
				case *ssa.Function:
					clo = f
				}
				if clo != nil && len(clo.Params) == 1 && len(c.Call.Args) == 1 {
					for _, b := range clo.Blocks {
						for _, in := range b.Instrs {
							if r, ok := in.(*ssa.Return); ok && len(r.Results) == 1 {
								e2 := map[ssa.Value]ssa.Value{clo.Params[0]: resolve(c.Call.Args[0], env)}
								return chainOf(r.Results[0], e2, d+1)
							}
						}
					}
				}
				return nil, false
			}
			var chains []utf8Chain
			for _, b := range target.Blocks {
				for _, in := range b.Instrs {
					c, ok := in.(*ssa.Call)
					if !ok {
						continue
					}
					bi, ok := c.Call.Value.(*ssa.Builtin)
					if !ok || bi.Name() != "append" || len(c.Call.Args) != 2 {
						continue
					}
					// append(branches, lead): the appended element is stored into a one-element array
					lead := appendedElement(c.Call.Args[1])
					if lead == nil {
						undecided = "cannot see the appended branch at " + p.Pos(c.Pos())
						continue
					}
					ch, ok := chainOf(lead, map[ssa.Value]ssa.Value{}, 0)
					if !ok {
						if undecided == "" {
							undecided = "branch at " + p.Pos(c.Pos()) + " is not a constant chain down to the end state"
						}
						continue
					}
					chains = append(chains, ch)
				}
			}
			switch {
			case undecided != "":
				o.Status = core.Undecided
				o.Detail = undecided
			default:
				got, want := chainSet(chains), chainSet(wellFormedUTF8)
				var diffs []string
				for lead := 0x80; lead <= 0xFF; lead++ {
					if strings.Join(got[lead], "|") != strings.Join(want[lead], "|") {
						diffs = append(diffs, fmt.Sprintf("lead %02X: built [%s], standard [%s]", lead, strings.Join(got[lead], "|"), strings.Join(want[lead], "|")))
					}
				}
				if len(diffs) == 0 {
					o.Status = core.Discharged
					o.Detail = fmt.Sprintf("%d constant chains accept exactly the well-formed multi-byte sequences", len(chains))
				} else {
					if len(diffs) > 3 {
						diffs = append(diffs[:3], fmt.Sprintf("... %d more", len(diffs)-3))
					}
					o.Status = core.Violated
					o.Detail = "the chains differ from the table of well-formed UTF-8: " + strings.Join(diffs, "; ")
				}
			}
			res.Obligations = append(res.Obligations, o)
			return res
		},
	})
}

func resolve(v ssa.Value, env map[ssa.Value]ssa.Value) ssa.Value {
	if r, ok := env[v]; ok {
		return r
	}
	return v
}

// appendedElement: for append(s, x) in SSA form (the variadic argument is a slice of a fresh one-element
// array), the value x stored into element 0.
func appendedElement(v ssa.Value) ssa.Value {
	sl, ok := v.(*ssa.Slice)
	if !ok {
		return nil
	}
	al, ok := sl.X.(*ssa.Alloc)
	if !ok || al.Referrers() == nil {
		return nil
	}
	for _, r := range *al.Referrers() {
		ia, ok := r.(*ssa.IndexAddr)
		if !ok || ia.Referrers() == nil {
			continue
		}
		for _, r2 := range *ia.Referrers() {
			if st, ok := r2.(*ssa.Store); ok && st.Addr == ssa.Value(ia) {
				return st.Val
			}
		}
	}
	return nil
}
