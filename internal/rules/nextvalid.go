package rules

import (
	"fmt"
	"go/constant"
	"go/token"
	"go/types"
	"strings"

	"golang.org/x/tools/go/ssa"

	"verif/internal/core"
)

// R-NEXTVALID: a successor read from an NFA state may be the "no target" sentinel (nfa.InvalidState: the
// compiler's fragment for an empty character class ends in an epsilon edge without a target). It is used as an
// index only after it was compared with the sentinel or with a bound.

// stateIDSuccessors: the StateID-typed results of the accessor methods of nfa.State that hand out successors.
func stateIDSuccessors(p *core.Prog, fn *ssa.Function, stateID types.Type, stateT types.Type) []ssa.Value {
	var out []ssa.Value
	for _, b := range fn.Blocks {
		for _, in := range b.Instrs {
			call, ok := in.(*ssa.Call)
			if !ok {
				continue
			}
			g := call.Call.StaticCallee()
			if g == nil || g.Signature.Recv() == nil {
				continue
			}
			rt := g.Signature.Recv().Type()
			if pt, ok := rt.(*types.Pointer); ok {
				rt = pt.Elem()
			}
			if !types.Identical(rt, stateT) {
				continue
			}
			switch g.Name() {
			case "Epsilon", "Split", "Capture", "Look":
			default:
				continue
			}
			rs := g.Signature.Results()
			if rs.Len() == 1 {
				if types.Identical(rs.At(0).Type(), stateID) {
					out = append(out, call)
				}
				continue
			}
			for _, r := range *call.Referrers() {
				if ex, ok := r.(*ssa.Extract); ok && types.Identical(ex.Type(), stateID) {
					out = append(out, ex)
				}
			}
		}
	}
	return out
}

type nvCtx struct {
	p        *core.Prog
	invalid  int64
	stateID  types.Type
	visitedF map[string]bool
}

// derived: v or a conversion chain on top of it.
func nvBase(v ssa.Value) ssa.Value {
	for {
		switch x := v.(type) {
		case *ssa.Convert:
			v = x.X
		case *ssa.ChangeType:
			v = x.X
		default:
			return v
		}
	}
}

// nvGuarded: is block b dominated by a branch edge that compares one of the values in set (or a conversion of
// one) with the sentinel (on the "differs" edge) or with anything by an ordering comparison (either edge: the
// sentinel is the largest value of its type, so an ordering test against a length or a count separates it)?
func (c *nvCtx) nvGuarded(b *ssa.BasicBlock, set map[ssa.Value]bool) bool {
	for d := b; d != nil; d = d.Idom() {
		id := d.Idom()
		if id == nil || len(id.Instrs) == 0 || len(d.Preds) != 1 {
			continue
		}
		iff, ok := id.Instrs[len(id.Instrs)-1].(*ssa.If)
		if !ok {
			continue
		}
		if c.condGuards(iff.Cond, set, id.Succs[0] == d, 0) {
			return true
		}
	}
	return false
}

func (c *nvCtx) condGuards(cond ssa.Value, set map[ssa.Value]bool, onTrue bool, depth int) bool {
	if depth > 4 {
		return false
	}
	switch x := cond.(type) {
	case *ssa.UnOp:
		if x.Op == token.NOT {
			return c.condGuards(x.X, set, !onTrue, depth+1)
		}
	case *ssa.BinOp:
		xin, yin := set[nvBase(x.X)], set[nvBase(x.Y)]
		if !xin && !yin {
			return false
		}
		other := x.Y
		if yin && !xin {
			other = x.X
		}
		switch x.Op {
		case token.EQL, token.NEQ:
			if k, ok := other.(*ssa.Const); ok && k.Value != nil && k.Value.Kind() == constant.Int {
				if v, ok := constant.Int64Val(k.Value); ok && v == c.invalid {
					return (x.Op == token.NEQ) == onTrue
				}
			}
		case token.LSS, token.LEQ, token.GTR, token.GEQ:
			return true
		}
	case *ssa.Phi:
		// short-circuit && / ||: a phi of bools whose non-constant edges are comparisons
		for _, e := range x.Edges {
			if _, isC := e.(*ssa.Const); isC {
				continue
			}
			if c.condGuards(e, set, onTrue, depth+1) {
				return true
			}
		}
	}
	return false
}

// nvFlow follows value v (possibly the sentinel) through fn and reports index uses that no comparison guards.
// chain: the values the sentinel travelled through so far inside this function (a guard on any of them counts).
func (c *nvCtx) nvFlow(fn *ssa.Function, v ssa.Value, depth int, path []string, report func(pos token.Pos, what string, path []string)) {
	set := map[ssa.Value]bool{}
	var work []ssa.Value
	add := func(x ssa.Value) {
		if !set[x] {
			set[x] = true
			work = append(work, x)
		}
	}
	add(v)
	type use struct {
		in  ssa.Instruction
		val ssa.Value
	}
	var uses []use
	for len(work) > 0 {
		x := work[len(work)-1]
		work = work[:len(work)-1]
		refs := x.Referrers()
		if refs == nil {
			continue
		}
		for _, r := range *refs {
			switch y := r.(type) {
			case *ssa.Convert:
				add(y)
			case *ssa.ChangeType:
				add(y)
			case *ssa.Phi:
				// edge-wise: the value enters the phi from a predecessor block; if that block lies behind a
				// guard of the value (if next != InvalidState { sid = next; continue }) the sentinel does not
				// travel along this edge
				for i, e := range y.Edges {
					if e != x || i >= len(y.Block().Preds) {
						continue
					}
					g := map[ssa.Value]bool{}
					for z := range set {
						g[z] = true
						g[nvBase(z)] = true
					}
					if !c.nvGuarded(y.Block().Preds[i], g) {
						add(y)
					}
				}
			default:
				uses = append(uses, use{r, x})
			}
		}
	}
	// a guard on any member of the flow set counts (base values only: conversions are looked through)
	base := map[ssa.Value]bool{}
	for x := range set {
		base[nvBase(x)] = true
		base[x] = true
	}
	for _, u := range uses {
		blk := u.in.Block()
		switch y := u.in.(type) {
		case *ssa.IndexAddr:
			if y.Index == u.val && !c.nvGuarded(blk, base) {
				report(y.Pos(), "index of "+types.TypeString(y.X.Type(), nil), path)
			}
		case *ssa.Index:
			if y.Index == u.val && !c.nvGuarded(blk, base) {
				report(y.Pos(), "index of "+types.TypeString(y.X.Type(), nil), path)
			}
		case ssa.CallInstruction:
			cm := y.Common()
			g := cm.StaticCallee()
			if g == nil || len(g.Blocks) == 0 || !c.p.InModule(ownPkg(g)) || depth >= 3 {
				continue
			}
			if c.nvGuarded(blk, base) {
				continue
			}
			args := cm.Args
			for i, a := range args {
				if a != u.val || i >= len(g.Params) {
					continue
				}
				key := fmt.Sprintf("%s#%d", core.FuncName(g), i)
				if c.visitedF[key] {
					// already examined with this parameter: its report (if any) was made under the first path
					continue
				}
				c.visitedF[key] = true
				c.nvFlow(g, g.Params[i], depth+1, append(append([]string{}, path...), core.FuncName(g)), report)
			}
		}
	}
}

func init() {
	core.Register(&core.Rule{
		Name: "R-NEXTVALID",
		Doc: "A successor read from an NFA state may be the 'no target' sentinel. The accessors of nfa.State that hand out successors (Epsilon, Split, Capture, Look) return nfa.InvalidState (the largest value of its type, read from the declaration) for an edge without a target - the compiler's fragment for an empty character class ([^\\x00-\\x{10FFFF}]) ends in one. Every module function that reads such a successor may use it - through conversions, phis and static calls three deep, the parameter followed inside the callee - as the index of a slice or array only where a branch edge dominates the use that compares the value with the sentinel ('differs' edge) or orders it against anything (a length, a count: either edge separates the largest value). Sibling agreement: the PikeVM, the lazy DFA builder and nfa.(*NFA).State test every successor; the one-pass builder pushed it into its visited set unchecked, so Compile panicked (index out of range [4294967295]) on [^\\x00-\\x{10FFFF}](a), a pattern regexp accepts ⇒ fixed. Values stored into memory (a stack of frames) are not followed. Necessary for C07 (no panic) and C09 (Compile accepts what regexp accepts).",
		Min: 20, NeedSSA: true,
		Run: func(p *core.Prog) *core.RuleResult {
			res := &core.RuleResult{}
			kc := core.NewKeyCounter()
			stateIDT := p.LookupType("nfa", "StateID")
			stateT := p.LookupType("nfa", "State")
			if stateIDT == nil || stateT == nil {
				res.Fatal = append(res.Fatal, "nfa.StateID / nfa.State not found")
				return res
			}
			var invalid int64 = -1
			if pk := p.Pkg("nfa"); pk != nil {
				if k, ok := pk.Types.Scope().Lookup("InvalidState").(*types.Const); ok {
					if v, ok := constant.Int64Val(k.Val()); ok {
						invalid = v
					}
				}
			}
			if invalid < 0 {
				res.Fatal = append(res.Fatal, "constant nfa.InvalidState not found")
				return res
			}
			res.Notes = append(res.Notes, fmt.Sprintf("sentinel nfa.InvalidState = %d (read from the declaration)", invalid))
			nfn := 0
			for _, fn := range p.SrcFuncs() {
				if strings.HasSuffix(p.File(fn.Pos()), "_test.go") || !p.InModule(ownPkg(fn)) {
					continue
				}
				succ := stateIDSuccessors(p, fn, stateIDT, stateT)
				if len(succ) == 0 {
					continue
				}
				nfn++
				for _, v := range succ {
					ctx := &nvCtx{p: p, invalid: invalid, stateID: stateIDT, visitedF: map[string]bool{}}
					var bad []string
					var badPath []string
					ctx.nvFlow(fn, v, 0, []string{core.FuncName(fn)}, func(pos token.Pos, what string, path []string) {
						bad = append(bad, what+" at "+p.Pos(pos))
						if badPath == nil {
							badPath = path
						}
					})
					name := "successor"
					if c, ok := v.(*ssa.Call); ok {
						name = "successor from " + c.Call.StaticCallee().Name()
					} else if ex, ok := v.(*ssa.Extract); ok {
						if c, ok := ex.Tuple.(*ssa.Call); ok {
							name = fmt.Sprintf("successor from %s (result %d)", c.Call.StaticCallee().Name(), ex.Index)
						}
					}
					o := core.Obligation{Key: kc.Key("R-NEXTVALID", core.FuncName(fn), name+" compared with the sentinel before it indexes"), Pos: p.Pos(v.Pos()), Nontrivial: true}
					if len(bad) == 0 {
						o.Status = core.Discharged
						o.Detail = "every index use reached through conversions, phis and static calls is behind a comparison (or there is none)"
					} else {
						o.Status = core.Violated
						o.Detail = "may be nfa.InvalidState (an edge without a target) and reaches, with no comparison on the way: " + strings.Join(bad, "; ")
						o.Path = badPath
					}
					res.Obligations = append(res.Obligations, o)
				}
			}
			res.Notes = append(res.Notes, fmt.Sprintf("functions that read successors of NFA states: %d", nfn))
			return res
		},
	})
}
