package rules

import (
	"fmt"
	"go/token"
	"go/types"
	"strings"

	"golang.org/x/tools/go/ssa"

	"verif/internal/core"
)

type fieldKey struct {
	t *types.Struct
	i int
}

func fieldKeyOf(fa *ssa.FieldAddr) (fieldKey, bool) {
	pt, ok := fa.X.Type().Underlying().(*types.Pointer)
	if !ok {
		return fieldKey{}, false
	}
	st, ok := pt.Elem().Underlying().(*types.Struct)
	if !ok {
		return fieldKey{}, false
	}
	return fieldKey{st, fa.Field}, true
}

func init() {
	core.Register(&core.Rule{
		Name: "R-WRITEBACK",
		Doc: "Scratch that grew is kept. In packages nfa, dfa/lazy, dfa/onepass and meta, when a function appends to a slice that is (an alias of) a slice field of a struct reached through a pointer - the reusable stacks and queues of the per-search state - every path from that append to a return passes a store of the grown slice (or a re-slice of it) back into the same field. A local copy of the slice header that is pushed and popped 'to save a load and a store per operation' and never written back leaves the field at the capacity some other function gave it, so every deeper closure re-allocates on every step: Count, AllIndex, AppendAllIndex and FindIndices allocate in steady state (873 allocations per Count call) and behaviour depends on which call ran first (C20, C13). A slice with an explicit capacity bound (s[:0:0], the copy idiom) is not an alias; a function that returns the grown slice hands the duty to its caller.",
		Min: 20, NeedSSA: true,
		Run: func(p *core.Prog) *core.RuleResult {
			res := &core.RuleResult{}
			kc := core.NewKeyCounter()
			for _, fn := range p.SrcFuncs() {
				if strings.HasSuffix(p.File(fn.Pos()), "_test.go") {
					continue
				}
				pk := ownPkg(fn)
				if pk == nil || !p.InModule(pk) {
					continue
				}
				rel := strings.TrimPrefix(pk.Path(), core.ModPath)
				if rel != "/nfa" && rel != "/dfa/lazy" && rel != "/dfa/onepass" && rel != "/meta" {
					continue
				}
				// alias analysis: value -> field it aliases
				alias := map[ssa.Value]fieldKey{}
				changed := true
				for changed {
					changed = false
					for _, b := range fn.Blocks {
						for _, in := range b.Instrs {
							v, ok := in.(ssa.Value)
							if !ok {
								continue
							}
							if _, done := alias[v]; done {
								continue
							}
							var k fieldKey
							found := false
							switch x := in.(type) {
							case *ssa.UnOp:
								if x.Op == token.MUL {
									if fa, ok := x.X.(*ssa.FieldAddr); ok {
										if _, isSl := x.Type().Underlying().(*types.Slice); isSl {
											k, found = fieldKeyOf(fa)
										}
									}
								}
							case *ssa.Slice:
								if x.Max == nil {
									k, found = alias[x.X]
								}
							case *ssa.Phi:
								for _, e := range x.Edges {
									if kk, ok := alias[e]; ok {
										k, found = kk, true
									}
								}
							case *ssa.Call:
								if bi, ok := x.Call.Value.(*ssa.Builtin); ok && bi.Name() == "append" && len(x.Call.Args) > 0 {
									k, found = alias[x.Call.Args[0]]
								}
							}
							if found {
								alias[v] = k
								changed = true
							}
						}
					}
				}
				if len(alias) == 0 {
					continue
				}
				// store-back blocks per field; returns of an alias
				stores := map[fieldKey]map[*ssa.BasicBlock]bool{}
				returned := map[fieldKey]bool{}
				for _, b := range fn.Blocks {
					for _, in := range b.Instrs {
						switch x := in.(type) {
						case *ssa.Store:
							if fa, ok := x.Addr.(*ssa.FieldAddr); ok {
								if k, ok := fieldKeyOf(fa); ok {
									if ak, isAlias := alias[x.Val]; isAlias && ak == k {
										if stores[k] == nil {
											stores[k] = map[*ssa.BasicBlock]bool{}
										}
										stores[k][b] = true
									}
								}
							}
						case *ssa.Return:
							for _, r := range x.Results {
								if k, ok := alias[r]; ok {
									returned[k] = true
								}
							}
						}
					}
				}
				// growth appends
				for _, b := range fn.Blocks {
					for _, in := range b.Instrs {
						c, ok := in.(*ssa.Call)
						if !ok {
							continue
						}
						bi, ok := c.Call.Value.(*ssa.Builtin)
						if !ok || bi.Name() != "append" || len(c.Call.Args) == 0 {
							continue
						}
						k, ok := alias[c.Call.Args[0]]
						if !ok {
							continue
						}
						o := core.Obligation{Key: kc.Key("R-WRITEBACK", core.FuncName(fn), "growth of "+k.t.Field(k.i).Name()+" stored back"), Pos: p.Pos(c.Pos()), Nontrivial: true}
						if returned[k] {
							o.Status = core.Discharged
							o.Detail = "the grown slice is returned to the caller"
							res.Obligations = append(res.Obligations, o)
							continue
						}
						// every path from this append to a return passes a store-back block (a store later in the same block counts)
						sameBlockStore := false
						after := false
						for _, y := range b.Instrs {
							if y == in {
								after = true
								continue
							}
							if st, ok := y.(*ssa.Store); ok && after {
								if fa, ok := st.Addr.(*ssa.FieldAddr); ok {
									if kk, ok := fieldKeyOf(fa); ok && kk == k {
										if ak, isAlias := alias[st.Val]; isAlias && ak == k {
											sameBlockStore = true
										}
									}
								}
							}
						}
						bad := ""
						if !sameBlockStore {
							seen := map[*ssa.BasicBlock]bool{}
							var walk func(x *ssa.BasicBlock, first bool)
							walk = func(x *ssa.BasicBlock, first bool) {
								if bad != "" {
									return
								}
								if !first {
									if seen[x] || stores[k][x] {
										return
									}
									seen[x] = true
								}
								if len(x.Instrs) > 0 {
									if r, ok := x.Instrs[len(x.Instrs)-1].(*ssa.Return); ok {
										bad = p.Pos(r.Pos())
										if bad == "-" {
											bad = "the end of the function"
										}
										return
									}
								}
								for _, s := range x.Succs {
									walk(s, false)
								}
							}
							walk(b, true)
						}
						if bad == "" {
							o.Status = core.Discharged
							o.Detail = "every path to a return stores the grown slice back into the field"
						} else {
							o.Status = core.Violated
							o.Detail = fmt.Sprintf("the slice appended to aliases the field %s, and the return at %s is reached without storing the grown slice back: the field keeps its old capacity and the next call allocates again", k.t.Field(k.i).Name(), bad)
						}
						res.Obligations = append(res.Obligations, o)
					}
				}
			}
			return res
		},
	})
}
