package rules

import (
	"fmt"
	"go/types"
	"sort"
	"strings"

	"golang.org/x/tools/go/ssa"

	"verif/internal/core"
)

// recvFieldStores: the fields of a *T value that fn (a method of T) and the closures nested in it store to.
// (A method with closures keeps its receiver in a cell, so the stores are matched by the type of the base.)
func recvFieldStores(fn *ssa.Function, t *types.Named) map[*types.Var]*ssa.Store {
	out := map[*types.Var]*ssa.Store{}
	var visit func(f *ssa.Function)
	visit = func(f *ssa.Function) {
		if f == nil || f.Blocks == nil {
			return
		}
		for _, b := range f.Blocks {
			for _, in := range b.Instrs {
				st, ok := in.(*ssa.Store)
				if !ok {
					continue
				}
				fa, ok := st.Addr.(*ssa.FieldAddr)
				if !ok {
					continue
				}
				pt, ok := fa.X.Type().Underlying().(*types.Pointer)
				if !ok || pt.Elem() != types.Type(t) {
					continue
				}
				if fld := innerField(fa); fld != nil {
					if _, dup := out[fld]; !dup {
						out[fld] = st
					}
				}
			}
		}
		for _, an := range f.AnonFuncs {
			visit(an)
		}
	}
	visit(fn)
	return out
}

func init() {
	core.Register(&core.Rule{
		Name: "R-RUNSTATE",
		Doc: "A reusable driver object starts every run from a clean slate. A run entry is an exported method of a module struct type T that replaces a pointer field of its receiver by a freshly constructed object (the result of a New* call of the module: the compiler's state builder) in its entry block. Everything T's other methods write into the receiver is state of one run - it refers to the object that was just replaced (state ids of the old builder) - so every field of T that any other method of T stores to must also be stored in the run entry, before its first call of a method of T. A field added for caching that is filled lazily and never reset (a UTF-8 suffix cache hoisted from a local into the compiler) hands the next compilation state ids of the previous pattern's automaton: a silently wrong dot, no error (C15, and C13's history independence at the level of a reused nfa.Compiler).",
		Min: 3, NeedSSA: true,
		Run: func(p *core.Prog) *core.RuleResult {
			res := &core.RuleResult{}
			type entry struct {
				fn    *ssa.Function
				named *types.Named
			}
			var entries []entry
			for _, fn := range p.SrcFuncs() {
				pk := ownPkg(fn)
				if pk == nil || !p.InModule(pk) || strings.HasSuffix(p.File(fn.Pos()), "_test.go") || fn.Signature.Recv() == nil || fn.Object() == nil || !fn.Object().Exported() || len(fn.Blocks) == 0 {
					continue
				}
				pt, ok := fn.Signature.Recv().Type().(*types.Pointer)
				if !ok {
					continue
				}
				nm, ok := pt.Elem().(*types.Named)
				if !ok {
					continue
				}
				// entry block: a store of a fresh module object into a pointer field of the receiver
				fresh := false
				for _, in := range fn.Blocks[0].Instrs {
					st, ok := in.(*ssa.Store)
					if !ok {
						continue
					}
					fa, ok := st.Addr.(*ssa.FieldAddr)
					if !ok || fa.X != ssa.Value(fn.Params[0]) {
						continue
					}
					c, ok := st.Val.(*ssa.Call)
					if !ok || c.Call.StaticCallee() == nil || !strings.HasPrefix(c.Call.StaticCallee().Name(), "New") || c.Call.StaticCallee().Pkg == nil || !p.InModule(c.Call.StaticCallee().Pkg.Pkg) {
						continue
					}
					if _, isPtr := st.Val.Type().Underlying().(*types.Pointer); isPtr {
						fresh = true
					}
				}
				if fresh {
					entries = append(entries, entry{fn, nm})
				}
			}
			sort.Slice(entries, func(i, j int) bool { return core.FuncName(entries[i].fn) < core.FuncName(entries[j].fn) })
			for _, e := range entries {
				// fields stored in the entry before the first call of a method of T
				reset := map[*types.Var]bool{}
			scan:
				for _, b := range e.fn.Blocks[:1] {
					for _, in := range b.Instrs {
						if c, ok := in.(*ssa.Call); ok {
							if cal := c.Call.StaticCallee(); cal != nil && cal.Signature.Recv() != nil && len(c.Call.Args) > 0 && c.Call.Args[0] == ssa.Value(e.fn.Params[0]) {
								break scan
							}
						}
						if st, ok := in.(*ssa.Store); ok {
							if fa, ok := st.Addr.(*ssa.FieldAddr); ok && fa.X == ssa.Value(e.fn.Params[0]) {
								if f := innerField(fa); f != nil {
									reset[f] = true
								}
							}
						}
					}
				}
				// fields written by the other methods of T
				written := map[*types.Var]string{}
				for _, fn := range p.SrcFuncs() {
					if fn == e.fn || fn.Signature.Recv() == nil || strings.HasSuffix(p.File(fn.Pos()), "_test.go") {
						continue
					}
					pt, ok := fn.Signature.Recv().Type().(*types.Pointer)
					if !ok || pt.Elem() != types.Type(e.named) {
						continue
					}
					for f, st := range recvFieldStores(fn, e.named) {
						if _, dup := written[f]; !dup {
							written[f] = core.FuncName(fn) + " at " + p.Pos(st.Pos())
						}
					}
				}
				var fs []*types.Var
				for f := range written {
					fs = append(fs, f)
				}
				sort.Slice(fs, func(i, j int) bool { return fs[i].Name() < fs[j].Name() })
				for _, f := range fs {
					o := core.Obligation{Key: "R-RUNSTATE|" + core.FuncName(e.fn) + "|re-initialises " + f.Name(), Pos: p.Pos(e.fn.Pos()), Nontrivial: true}
					if reset[f] {
						o.Status = core.Discharged
						o.Detail = "stored in the run entry before any method of the receiver is called"
					} else {
						o.Status = core.Violated
						o.Detail = fmt.Sprintf("%s is written by %s but not re-initialised where %s replaces the receiver's sub-object: its content refers to the previous run", f.Name(), written[f], e.fn.Name())
					}
					res.Obligations = append(res.Obligations, o)
				}
			}
			return res
		},
	})
}
