package rules

import (
	"fmt"
	"go/token"
	"go/types"
	"sort"
	"strings"

	"golang.org/x/tools/go/ssa"

	"verif/internal/core"
)

// R-SCRATCHINIT: recycled scratch slices that must start each search / seed from a constant fill.

// scratchFieldOf returns the struct field when v is (a load of) a slice-typed field of a module struct.
func scratchFieldOf(v ssa.Value) *types.Var {
	// a view of the slice (S[:cap(S)], S[a:b]) is the same buffer
	for i := 0; i < 3; i++ {
		sl, ok := v.(*ssa.Slice)
		if !ok {
			break
		}
		v = sl.X
	}
	ld, ok := v.(*ssa.UnOp)
	if !ok || ld.Op != token.MUL {
		return nil
	}
	fa, ok := ld.X.(*ssa.FieldAddr)
	if !ok {
		return nil
	}
	f := innerField(fa)
	if f == nil {
		return nil
	}
	if sl, ok := f.Type().Underlying().(*types.Slice); ok {
		if _, ok := sl.Elem().Underlying().(*types.Basic); ok {
			return f
		}
	}
	return nil
}

type scratchFacts struct {
	fill    map[*ssa.Function]map[*types.Var][]ssa.Instruction // constant element stores in a loop
	copyIn  map[*ssa.Function]map[*types.Var][]ssa.Instruction // copy(S, ...)
	reads   map[*ssa.Function]map[*types.Var]bool              // element loads / copy source / passes S to a callee
	fillFn  map[*ssa.Function]*types.Var                       // functions that only fill S (Cache.Reset)
}

func addInstr(m map[*ssa.Function]map[*types.Var][]ssa.Instruction, fn *ssa.Function, f *types.Var, in ssa.Instruction) {
	if m[fn] == nil {
		m[fn] = map[*types.Var][]ssa.Instruction{}
	}
	m[fn][f] = append(m[fn][f], in)
}

func collectScratchFacts(p *core.Prog) *scratchFacts {
	sf := &scratchFacts{fill: map[*ssa.Function]map[*types.Var][]ssa.Instruction{}, copyIn: map[*ssa.Function]map[*types.Var][]ssa.Instruction{},
		reads: map[*ssa.Function]map[*types.Var]bool{}, fillFn: map[*ssa.Function]*types.Var{}}
	for _, fn := range p.SrcFuncs() {
		if strings.HasSuffix(p.File(fn.Pos()), "_test.go") {
			continue
		}
		comp, cyclic := blockSCCs(fn)
		otherEffects := false
		var onlyField *types.Var
		for _, b := range fn.Blocks {
			for _, in := range b.Instrs {
				switch x := in.(type) {
				case *ssa.Store:
					if ia, ok := x.Addr.(*ssa.IndexAddr); ok {
						if f := scratchFieldOf(ia.X); f != nil {
							if _, isConst := x.Val.(*ssa.Const); isConst && cyclic[comp[b.Index]] {
								addInstr(sf.fill, fn, f, in)
								if onlyField == nil || onlyField == f {
									onlyField = f
								} else {
									otherEffects = true
								}
								continue
							}
						}
					}
					switch x.Addr.(type) {
					case *ssa.Alloc, *ssa.FieldAddr:
						// locals and scalar flag fields (e.g. a dirty bit) do not make it more than a fill function
					default:
						otherEffects = true
					}
				case *ssa.UnOp:
					if x.Op == token.MUL {
						if ia, ok := x.X.(*ssa.IndexAddr); ok {
							if f := scratchFieldOf(ia.X); f != nil {
								if sf.reads[fn] == nil {
									sf.reads[fn] = map[*types.Var]bool{}
								}
								sf.reads[fn][f] = true
							}
						}
					}
				case *ssa.Call:
					if bi, ok := x.Call.Value.(*ssa.Builtin); ok {
						if bi.Name() == "copy" {
							if f := scratchFieldOf(x.Call.Args[0]); f != nil {
								addInstr(sf.copyIn, fn, f, in)
							}
							if f := scratchFieldOf(x.Call.Args[1]); f != nil {
								if sf.reads[fn] == nil {
									sf.reads[fn] = map[*types.Var]bool{}
								}
								sf.reads[fn][f] = true
							}
						}
						if bi.Name() != "len" && bi.Name() != "cap" {
							otherEffects = true
						}
						continue
					}
					otherEffects = true
					for _, a := range x.Call.Args {
						if f := scratchFieldOf(a); f != nil {
							if sf.reads[fn] == nil {
								sf.reads[fn] = map[*types.Var]bool{}
							}
							sf.reads[fn][f] = true
						}
					}
				case *ssa.MapUpdate:
					otherEffects = true
				}
			}
		}
		if onlyField != nil && !otherEffects && len(sf.fill[fn]) == 1 {
			sf.fillFn[fn] = onlyField
		}
	}
	return sf
}

// scratchExempt: (function|field) pairs that legitimately use a scratch slice without initialising it, with the reason.
var scratchExempt = map[string]string{
	"(*nfa.PikeVM).searchWithSlotTableUnanchored|currSlots": "non-capturing driver: its entry sets the active slot width to <= 2 and currSlots is only consulted under activeSlots > 2",
	"(*nfa.PikeVM).searchWithSlotTableAnchored|currSlots":   "non-capturing driver: its entry sets the active slot width to <= 2 and currSlots is only consulted under activeSlots > 2",
}

// scratchEntryFields: scratch slices whose readers are separate helper functions (so that "some caller up the chain
// initialises it" is a real obligation); confirmed by reading the pinned tree. For the other fill-initialised slices the
// fill and every use sit in one function and clauses (A)/(B) cover them.
var scratchEntryFields = map[string]bool{"currSlots": true}

func init() {
	core.Register(&core.Rule{
		Name: "R-SCRATCHINIT",
		Doc: "Recycled scratch slices start from a constant fill. For every scalar slice field S of a state struct that some function constant-fills in a loop (capture slot buffers, match-length scratch): (A) in each driver (a function containing a constant fill of S: the fill loop or a call of a fill-only function such as Cache.Reset), every use of S (element read, passing S to a callee, a call of a helper that reads S) is preceded by an initialisation on every path from the function entry - a conditional reset is not enough; (B) if such a use sits in a loop that also contains a call which overwrites S (copy into S through a helper), the initialisation that precedes it must sit in the same loop, i.e. run per iteration; (C) for the capture working buffer (currSlots), whose readers are separate helpers, and for every scratch slice that has a dedicated fill-only method (Cache.Reset: the type itself says it must be reset per use), no entry point (exported method or function without module callers) may reach a reader without passing a driver that fills it - moving the fill into the constructor leaves the second search with the first one's values. Stale slots make a later search report capture positions of an earlier one (C03, C13) and spans outside the haystack (C07).",
		Min: 7, NeedSSA: true,
		Run: func(p *core.Prog) *core.RuleResult {
			res := &core.RuleResult{}
			sf := collectScratchFacts(p)
			cg := p.CallGraph()
			// scratch fields = fields with a fill somewhere
			fieldSet := map[*types.Var]bool{}
			for _, m := range sf.fill {
				for f := range m {
					fieldSet[f] = true
				}
			}
			var fields []*types.Var
			for f := range fieldSet {
				fields = append(fields, f)
			}
			sort.Slice(fields, func(i, j int) bool { return fields[i].Name() < fields[j].Name() })
			for _, S := range fields {
				// helpers that read S (transitively), propagation stops at drivers
				isDriver := func(fn *ssa.Function) bool {
					// a function that only refreshes S by copy(S, row) under the same mode test as its reads is a helper,
					// not a driver: path-insensitive analysis cannot correlate the two tests
					if len(sf.fill[fn][S]) > 0 {
						return true
					}
					for _, b := range fn.Blocks {
						for _, in := range b.Instrs {
							if c, ok := in.(*ssa.Call); ok {
								if cal := c.Call.StaticCallee(); cal != nil && sf.fillFn[cal] == S {
									return true
								}
							}
						}
					}
					return false
				}
				readers := map[*ssa.Function]bool{}
				for fn, m := range sf.reads {
					// a function that refreshes S by copy(S, ...) before working on it is self-initialising
					if m[S] && sf.fillFn[fn] != S && len(sf.copyIn[fn][S]) == 0 {
						readers[fn] = true
					}
				}
				reach := map[*ssa.Function]bool{}
				for f := range readers {
					reach[f] = true
				}
				for changed := true; changed; {
					changed = false
					for _, fn := range p.SrcFuncs() {
						if reach[fn] {
							continue
						}
						if n := cg.Nodes[fn]; n != nil {
							for _, e := range n.Out {
								c := e.Callee.Func
								if reach[c] && !isDriver(c) && len(sf.copyIn[c][S]) == 0 && scratchExempt[core.FuncName(c)+"|"+S.Name()] == "" {
									reach[fn] = true
									changed = true
									break
								}
							}
						}
					}
				}
				// functions that overwrite S through copy (directly or via non-driver callees)
				writes := map[*ssa.Function]bool{}
				for fn, m := range sf.copyIn {
					if len(m[S]) > 0 {
						writes[fn] = true
					}
				}
				for changed := true; changed; {
					changed = false
					for _, fn := range p.SrcFuncs() {
						if writes[fn] {
							continue
						}
						if n := cg.Nodes[fn]; n != nil {
							for _, e := range n.Out {
								if writes[e.Callee.Func] {
									writes[fn] = true
									changed = true
									break
								}
							}
						}
					}
				}
				var drivers, helpers []*ssa.Function
				for _, fn := range p.SrcFuncs() {
					if strings.HasSuffix(p.File(fn.Pos()), "_test.go") {
						continue
					}
					if isDriver(fn) && sf.fillFn[fn] != S {
						drivers = append(drivers, fn)
					} else if reach[fn] && sf.fillFn[fn] != S {
						helpers = append(helpers, fn)
					}
				}
				sort.Slice(drivers, func(i, j int) bool { return core.FuncName(drivers[i]) < core.FuncName(drivers[j]) })
				sort.Slice(helpers, func(i, j int) bool { return core.FuncName(helpers[i]) < core.FuncName(helpers[j]) })
				isInit := func(in ssa.Instruction) bool {
					switch x := in.(type) {
					case *ssa.Store:
						if ia, ok := x.Addr.(*ssa.IndexAddr); ok && scratchFieldOf(ia.X) == S {
							_, isConst := x.Val.(*ssa.Const)
							return isConst
						}
					case *ssa.Call:
						if bi, ok := x.Call.Value.(*ssa.Builtin); ok {
							return bi.Name() == "copy" && scratchFieldOf(x.Call.Args[0]) == S
						}
						if cal := x.Call.StaticCallee(); cal != nil && sf.fillFn[cal] == S {
							return true
						}
					}
					return false
				}
				isUse := func(fn *ssa.Function, in ssa.Instruction) (bool, string) {
					switch x := in.(type) {
					case *ssa.UnOp:
						if x.Op == token.MUL {
							if ia, ok := x.X.(*ssa.IndexAddr); ok && scratchFieldOf(ia.X) == S {
								return true, "element read"
							}
						}
					case *ssa.Call:
						if _, ok := x.Call.Value.(*ssa.Builtin); ok {
							if len(x.Call.Args) == 2 && scratchFieldOf(x.Call.Args[1]) == S {
								return true, "copy source"
							}
							return false, ""
						}
						for _, a := range x.Call.Args {
							if scratchFieldOf(a) == S {
								name := "callee"
								if cal := x.Call.StaticCallee(); cal != nil {
									name = cal.Name()
								}
								return true, "passed to " + name
							}
						}
						if cal := x.Call.StaticCallee(); cal != nil && reach[cal] && !isDriver(cal) && cal != fn {
							return true, "call " + cal.Name()
						}
					}
					return false, ""
				}
				for _, fn := range drivers {
					comp, cyclic := blockSCCs(fn)
					kc := core.NewKeyCounter()
					// a fill loop may run zero times on an empty slice; reaching its header counts as the initialisation
					initHeader := map[*ssa.BasicBlock]bool{}
					for _, in := range sf.fill[fn][S] {
						fb := in.Block()
						for _, pr := range fb.Preds {
							if pr.Dominates(fb) && strings.HasSuffix(pr.Comment, "loop") {
								initHeader[pr] = true
							}
						}
					}
					for _, b := range fn.Blocks {
						for i, in := range b.Instrs {
							use, what := isUse(fn, in)
							if !use {
								continue
							}
							o := core.Obligation{Key: kc.Key("R-SCRATCHINIT", core.FuncName(fn), S.Name()+" initialised before "+what), Pos: p.Pos(in.Pos()), Nontrivial: true}
							if o.Pos == "-" {
								o.Pos = p.Pos(fn.Pos())
							}
							// (A) every backward path meets an init before the entry
							bad := ""
							seen := map[*ssa.BasicBlock]bool{}
							var initBlocks []*ssa.BasicBlock
							var walk func(b *ssa.BasicBlock, i int)
							walk = func(b *ssa.BasicBlock, i int) {
								if bad != "" {
									return
								}
								if initHeader[b] {
									initBlocks = append(initBlocks, b)
									return
								}
								for j := i; j >= 0; j-- {
									if isInit(b.Instrs[j]) {
										initBlocks = append(initBlocks, b)
										return
									}
								}
								if len(b.Preds) == 0 {
									bad = fmt.Sprintf("a path from the function entry reaches this use of %s without the constant fill / copy that initialises it (the reset is conditional or missing)", S.Name())
									return
								}
								for _, pr := range b.Preds {
									if !seen[pr] {
										seen[pr] = true
										walk(pr, len(pr.Instrs)-1)
									}
								}
							}
							walk(b, i-1)
							// (B) per-iteration init when the loop also overwrites S
							if bad == "" && cyclic[comp[b.Index]] {
								loopWrites := false
								for _, b2 := range fn.Blocks {
									if comp[b2.Index] != comp[b.Index] {
										continue
									}
									for _, in2 := range b2.Instrs {
										if c, ok := in2.(*ssa.Call); ok {
											if cal := c.Call.StaticCallee(); cal != nil && writes[cal] && !isInit(in2) {
												loopWrites = true
											}
										}
									}
								}
								if loopWrites {
									inLoop := false
									for _, ib := range initBlocks {
										if comp[ib.Index] == comp[b.Index] {
											inLoop = true
										}
									}
									if !inLoop {
										bad = fmt.Sprintf("%s is used inside a loop that also overwrites it, but it is initialised only before the loop: later iterations start from the previous iteration's values", S.Name())
									}
								}
							}
							switch {
							case bad == "":
								o.Status = core.Discharged
								o.Detail = "initialised on every path (and per iteration where the loop overwrites it)"
							case scratchExempt[core.FuncName(fn)+"|"+S.Name()] != "":
								o.Status = core.Discharged
								o.Detail = "exempt: " + scratchExempt[core.FuncName(fn)+"|"+S.Name()]
							default:
								o.Status = core.Violated
								o.Detail = bad
							}
							res.Obligations = append(res.Obligations, o)
						}
					}
				}
				// a field with a dedicated fill-only method (Cache.Reset) is per-search scratch by construction
				hasFillFn := false
				for _, f := range sf.fillFn {
					if f == S {
						hasFillFn = true
					}
				}
				for _, h := range helpers {
					if !scratchEntryFields[S.Name()] && !hasFillFn {
						break
					}
					// (C) an entry point (exported method / function without module callers) must not reach a read of S uninitialised
					n := cg.Nodes[h]
					ncallers := 0
					if n != nil {
						for _, e := range n.In {
							if !strings.HasSuffix(p.File(e.Caller.Func.Pos()), "_test.go") {
								ncallers++
							}
						}
					}
					exported := h.Object() != nil && h.Object().Exported() && h.Signature.Recv() != nil
					// Entries are the public API of the root and meta packages (where the properties are observed). An exported
					// method of a helper type in another package (SlotTable.GetSlot, unused) is not an entry: its callers are.
					apiPkg := false
					if pk := ownPkg(h); pk != nil && (pk.Path() == core.ModPath || strings.HasSuffix(pk.Path(), "/meta")) {
						apiPkg = true
					}
					if !apiPkg || (!exported && ncallers > 0) {
						continue
					}
					o := core.Obligation{Key: "R-SCRATCHINIT|" + core.FuncName(h) + "|entry does not reach an uninitialised read of " + S.Name(), Pos: p.Pos(h.Pos()), Nontrivial: true}
					if why := scratchExempt[core.FuncName(h)+"|"+S.Name()]; why != "" {
						o.Status = core.Discharged
						o.Detail = "exempt: " + why
					} else {
						o.Status = core.Violated
						o.Detail = fmt.Sprintf("entry point %s reaches code that reads the scratch slice %s with no constant fill on the way: the values of the previous search are used", h.Name(), S.Name())
					}
					res.Obligations = append(res.Obligations, o)
				}
				res.Notes = append(res.Notes, fmt.Sprintf("scratch %s: %d drivers, %d helpers", S.Name(), len(drivers), len(helpers)))
			}
			return res
		},
	})
}
