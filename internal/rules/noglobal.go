package rules

import (
	"fmt"
	"go/types"
	"sort"
	"strings"

	"golang.org/x/tools/go/ssa"

	"verif/internal/core"
)

// globalRoot follows address computations and loads of reference-typed values down to a package-level
// variable of the module.
func globalRoot(p *core.Prog, v ssa.Value, depth int) *ssa.Global {
	for i := 0; i < 10; i++ {
		switch x := v.(type) {
		case *ssa.Global:
			if x.Pkg != nil && p.InModule(x.Pkg.Pkg) {
				return x
			}
			return nil
		case *ssa.FieldAddr:
			v = x.X
		case *ssa.IndexAddr:
			v = x.X
		case *ssa.Slice:
			v = x.X
		case *ssa.UnOp:
			// load of a map/slice/pointer stored in the global: writes through it modify the global's data
			v = x.X
		case *ssa.ChangeType:
			v = x.X
		default:
			return nil
		}
	}
	return nil
}

// writesThroughParam: the function stores through an address computed from the parameter.
func writesThroughParam(fn *ssa.Function, prm *ssa.Parameter) bool {
	root := func(v ssa.Value) ssa.Value {
		for i := 0; i < 10; i++ {
			switch x := v.(type) {
			case *ssa.FieldAddr:
				v = x.X
			case *ssa.IndexAddr:
				v = x.X
			case *ssa.Slice:
				v = x.X
			case *ssa.UnOp:
				v = x.X
			default:
				return v
			}
		}
		return v
	}
	for _, b := range fn.Blocks {
		for _, in := range b.Instrs {
			switch x := in.(type) {
			case *ssa.Store:
				if root(x.Addr) == ssa.Value(prm) {
					return true
				}
			case *ssa.MapUpdate:
				if root(x.Map) == ssa.Value(prm) {
					return true
				}
			}
		}
	}
	return false
}

// noGlobalExempt: package-level variables that are meant to be written after initialisation.
var noGlobalExempt = map[string]string{
	"meta.debugLevel": "diagnostic switch set by the exported SetDebugLevel; read only to decide whether to print",
}

func init() {
	core.Register(&core.Rule{
		Name: "R-NOGLOBAL",
		Doc: "Compiled objects and searches share nothing through package-level variables: outside package initialisers, no function of the module stores into a package-level variable of the module (directly, through a field/element address, or through a map, slice or pointer loaded from it), updates a map held by one, clears/copies into one, calls a mutating method of a sync/atomic value held by one (Store, Swap, CompareAndSwap, Add ...), or passes (memory of) one to a module function that stores through that parameter. sync.Pool Get/Put are the sanctioned way to recycle memory (its typestate is R-POOL's subject). A package-level memo or scratch table is shared by every Regex and every goroutine: concurrent compiles or searches race on it (C06, C15: a shared UTF-8 suffix cache corrupts concurrently compiled automata), and even when it is updated atomically a result can depend on what an earlier call left there (C13, C18: a rare-byte memo keyed by the needle's address answers for a needle whose bytes have changed). Named exemptions carry their reason.",
		Min: 1, NeedSSA: true,
		Run: func(p *core.Prog) *core.RuleResult {
			res := &core.RuleResult{}
			kc := core.NewKeyCounter()
			globals := 0
			for _, pk := range p.Pkgs {
				sp := p.SSA.Package(pk.Types)
				if sp == nil {
					continue
				}
				for _, m := range sp.Members {
					if _, ok := m.(*ssa.Global); ok {
						globals++
					}
				}
			}
			type hit struct {
				fn   *ssa.Function
				g    *ssa.Global
				what string
				pos  string
			}
			var hits []hit
			for _, fn := range p.SrcFuncs() {
				if strings.HasSuffix(p.File(fn.Pos()), "_test.go") || !p.InModule(ownPkg(fn)) {
					continue
				}
				if fn.Name() == "init" || strings.HasPrefix(fn.Name(), "init#") || (fn.Parent() != nil && (fn.Parent().Name() == "init" || strings.HasPrefix(fn.Parent().Name(), "init#"))) {
					continue
				}
				for _, b := range fn.Blocks {
					for _, in := range b.Instrs {
						switch x := in.(type) {
						case *ssa.Store:
							if g := globalRoot(p, x.Addr, 0); g != nil {
								hits = append(hits, hit{fn, g, "store", p.Pos(x.Pos())})
							}
						case *ssa.MapUpdate:
							if g := globalRoot(p, x.Map, 0); g != nil {
								hits = append(hits, hit{fn, g, "map update", p.Pos(x.Pos())})
							}
						case ssa.CallInstruction:
							cc := x.Common()
							if bi, ok := cc.Value.(*ssa.Builtin); ok {
								switch bi.Name() {
								case "clear", "copy", "delete":
									if len(cc.Args) > 0 {
										if g := globalRoot(p, cc.Args[0], 0); g != nil {
											hits = append(hits, hit{fn, g, bi.Name() + "()", p.Pos(x.Pos())})
										}
									}
								}
								continue
							}
							cal := cc.StaticCallee()
							if cal == nil || len(cc.Args) == 0 {
								continue
							}
							cpk := cal.Pkg
							if cpk == nil && cal.Origin() != nil {
								cpk = cal.Origin().Pkg // instantiation of a generic (atomic.Pointer[T])
							}
							if cpk == nil {
								continue
							}
							pp := cpk.Pkg.Path()
							if p.InModule(cpk.Pkg) && len(cal.Blocks) > 0 {
								// a module function that writes through a parameter which here is (memory of) a global
								for i, a := range cc.Args {
									if i >= len(cal.Params) {
										break
									}
									g := globalRoot(p, a, 0)
									if g == nil {
										continue
									}
									if writesThroughParam(cal, cal.Params[i]) {
										hits = append(hits, hit{fn, g, "call of " + core.FuncName(cal) + " (writes through its argument)", p.Pos(x.Pos())})
									}
								}
								continue
							}
							if cal.Signature.Recv() == nil || (pp != "sync/atomic" && pp != "sync") {
								continue
							}
							g := globalRoot(p, cc.Args[0], 0)
							if g == nil {
								continue
							}
							rt := cal.Signature.Recv().Type().String()
							if strings.Contains(rt, "sync.Pool") {
								continue
							}
							switch cal.Name() {
							case "Load", "RLock", "RUnlock", "Lock", "Unlock", "Do", "Wait", "Done":
								continue
							}
							hits = append(hits, hit{fn, g, rt + "." + cal.Name(), p.Pos(x.Pos())})
						}
					}
				}
			}
			sort.Slice(hits, func(i, j int) bool { return hits[i].pos < hits[j].pos })
			for _, h := range hits {
				gname := strings.TrimPrefix(h.g.Pkg.Pkg.Path(), core.ModPath+"/") + "." + h.g.Name()
				if _, ok := h.g.Type().(*types.Pointer); !ok {
					continue
				}
				o := core.Obligation{Key: kc.Key("R-NOGLOBAL", core.FuncName(h.fn), h.what+" on package-level "+gname), Pos: h.pos, Nontrivial: true}
				if why := noGlobalExempt[gname]; why != "" {
					o.Status = core.Discharged
					o.Nontrivial = false
					o.Detail = "exempt: " + why
				} else {
					o.Status = core.Violated
					o.Detail = fmt.Sprintf("%s modifies the package-level variable %s after initialisation: it is shared by every compiled Regex and every goroutine", core.FuncName(h.fn), gname)
				}
				res.Obligations = append(res.Obligations, o)
			}
			// the census is the positive instance: the rule has looked at every package-level variable
			res.Obligations = append(res.Obligations, core.Obligation{Key: "R-NOGLOBAL|census|package-level variables examined", Status: core.Discharged, Nontrivial: true,
				Detail: fmt.Sprintf("%d package-level variables in %d module packages, %d modifying sites outside initialisers", globals, len(p.Pkgs), len(hits))})
			if globals < 10 {
				res.Fatal = append(res.Fatal, fmt.Sprintf("only %d package-level variables found: the census is implausible", globals))
			}
			return res
		},
	})
}
