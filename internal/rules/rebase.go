package rules

import (
	"fmt"
	"go/token"
	"go/types"
	"sort"
	"strings"

	"golang.org/x/tools/go/ssa"

	"verif/internal/asm"
	"verif/internal/core"
)

// candidateFinders: the implementations of prefilter.Prefilter's Find/FindMatch and the exported
// simd ...At wrappers (the subjects of R-PFOFFSET and R-REBASE).
func candidateFinders(p *core.Prog) ([]*ssa.Function, string) {
	pfPkg := p.Pkg("prefilter")
	var iface *types.Interface
	if pfPkg != nil {
		if tn, ok := pfPkg.Types.Scope().Lookup("Prefilter").(*types.TypeName); ok {
			iface, _ = tn.Type().Underlying().(*types.Interface)
		}
	}
	if iface == nil {
		return nil, "prefilter.Prefilter interface not found"
	}
	var subjects []*ssa.Function
	for _, fn := range p.SrcFuncs() {
		if strings.HasSuffix(p.File(fn.Pos()), "_test.go") || fn.Parent() != nil {
			continue
		}
		pk := ownPkg(fn)
		if pk == nil {
			continue
		}
		isPF := false
		if fn.Signature.Recv() != nil && (fn.Name() == "Find" || fn.Name() == "FindMatch") {
			rt := fn.Signature.Recv().Type()
			if types.Implements(rt, iface) || types.Implements(types.NewPointer(rt), iface) {
				isPF = true
			}
		}
		isAt := strings.HasSuffix(pk.Path(), "/simd") && strings.HasSuffix(fn.Name(), "At") && fn.Object() != nil && fn.Object().Exported()
		if isPF || isAt {
			subjects = append(subjects, fn)
		}
	}
	sort.Slice(subjects, func(i, j int) bool { return core.FuncName(subjects[i]) < core.FuncName(subjects[j]) })
	return subjects, ""
}

type phiEnv map[*ssa.BasicBlock]int // block -> chosen incoming edge for all its phis

type rebaseCtx struct {
	p     *core.Prog
	fn    *ssa.Function
	hay   *ssa.Parameter
	atoms map[string]ssa.Value // atom symbol -> the call (or extract) it stands for
	aenv  map[string]phiEnv    // atom symbol -> the phi choices in force where its call is evaluated
	adep  map[string]int       // atom symbol -> nesting depth at which it was met
	depth int                  // recursion depth over callee summaries
	inner phiEnv               // edge choices for merge phis met behind a substituted phi (nil: they stay opaque)
}

func atomName(v ssa.Value) string { return fmt.Sprintf("pos:%s@%d", v.Name(), v.Pos()) }

// calleeShape: what a module helper g adds to the position it finds. For every non-constant return of
// result ri, the returned expression is split into a found position (a position atom searched in a
// window of g's own haystack parameter with base b, or - failing that - whatever is neither parameter
// nor constant: a loop index over the parameter itself) and a linear rest over g's parameters;
// extra = rest - b is what the caller gets on top of the position in g's haystack argument.
// own=false means g hands back one of its arguments unchanged (extra is then the whole result).
func (c *rebaseCtx) calleeShape(g *ssa.Function, ri int) (extra map[int]int64, own bool, ok bool) {
	if g == nil || len(g.Blocks) == 0 {
		return nil, true, true // leaf (assembly, standard library): a position in its slice argument
	}
	if c.depth > 2 {
		return nil, false, false
	}
	var ghay *ssa.Parameter
	for _, prm := range g.Params {
		if isByteSlice(prm.Type()) && ghay == nil {
			ghay = prm
		}
	}
	seen := false
	for _, b := range g.Blocks {
		for _, in := range b.Instrs {
			ret, isRet := in.(*ssa.Return)
			if !isRet || ri >= len(ret.Results) {
				continue
			}
			v := ret.Results[ri]
			if _, isC := v.(*ssa.Const); isC {
				continue
			}
			gc := &rebaseCtx{p: c.p, fn: g, hay: ghay, atoms: map[string]ssa.Value{}, aenv: map[string]phiEnv{}, adep: map[string]int{}, depth: c.depth + 1}
			l := gc.lin(v, phiEnv{}, 0)
			rest := l
			thisOwn := false
			if a := gc.primaryAtom(l); a != "" {
				call := gc.atoms[a].(*ssa.Call)
				var S ssa.Value
				for _, x := range call.Call.Args {
					if isByteSlice(x.Type()) {
						S = x
						break
					}
				}
				base, okb := gc.baseOf(S, phiEnv{}, 0)
				if !okb {
					return nil, false, false
				}
				rest = l.Plus(asm.Sym(a), -1).Plus(base, -1)
				thisOwn = true
			}
			cf := map[int]int64{}
			for _, sname := range rest.Symbols() {
				matched := false
				for j, prm := range g.Params {
					if sname == "go:"+prm.Name() && isIntType(prm.Type()) {
						cf[j] = rest.Coef(sname)
						matched = true
					}
				}
				if !matched && !strings.HasPrefix(sname, "len:") {
					thisOwn = true // a loop index over the parameter, an opaque value
				}
			}
			if !seen {
				extra, own, seen = cf, thisOwn, true
				continue
			}
			if len(cf) != len(extra) || thisOwn != own {
				return nil, false, false
			}
			for j, k := range cf {
				if extra[j] != k {
					return nil, false, false
				}
			}
		}
	}
	if !seen {
		return nil, false, false
	}
	return extra, own, true
}

// primaryAtom: the found position an expression is built around: the only position atom, or the one met
// at the shallowest nesting.
func (c *rebaseCtx) primaryAtom(e asm.Lin) string {
	best, bestD, tie := "", 1<<30, false
	for _, s := range e.Symbols() {
		if !strings.HasPrefix(s, "pos:") || e.Coef(s) != 1 {
			continue
		}
		d := c.adep[s]
		switch {
		case d < bestD:
			best, bestD, tie = s, d, false
		case d == bestD:
			tie = true
		}
	}
	if tie {
		return ""
	}
	return best
}

// lin linearises an int value of the subject: parameters and opaque values are symbols, results of
// position-returning calls are atoms (plus whatever the callee adds from its arguments), phis of a
// block named in env are replaced by the chosen edge (whose own phis stay opaque: they are the
// previous iteration's values).
func (c *rebaseCtx) lin(v ssa.Value, env phiEnv, depth int) asm.Lin {
	if depth > 10 {
		return asm.Sym("v:" + v.Name())
	}
	switch x := v.(type) {
	case *ssa.Const:
		if i, ok := constInt(x); ok {
			return asm.Const(i)
		}
	case *ssa.Parameter:
		return asm.Sym("go:" + x.Name())
	case *ssa.Convert:
		if isIntType(x.X.Type()) && isIntType(x.Type()) {
			return c.lin(x.X, env, depth+1)
		}
	case *ssa.BinOp:
		switch x.Op {
		case token.ADD:
			return c.lin(x.X, env, depth+1).Plus(c.lin(x.Y, env, depth+1), 1)
		case token.SUB:
			return c.lin(x.X, env, depth+1).Plus(c.lin(x.Y, env, depth+1), -1)
		}
	case *ssa.Phi:
		if i, ok := env[x.Block()]; ok {
			// the chosen edge's own phis are the previous iteration's values (opaque), except merge phis the
			// caller asked to expand as well (inner)
			if c.inner != nil {
				return c.lin(x.Edges[i], c.inner, depth+1)
			}
			return c.lin(x.Edges[i], phiEnv{}, depth+1)
		}
	case *ssa.Extract:
		if call, ok := x.Tuple.(*ssa.Call); ok {
			return c.callLin(call, x.Index, x, env, depth)
		}
	case *ssa.Call:
		if bi, ok := x.Call.Value.(*ssa.Builtin); ok && bi.Name() == "len" {
			return asm.Sym("len:" + valueKey(x.Call.Args[0]))
		}
		if isIntType(x.Type()) {
			return c.callLin(x, 0, x, env, depth)
		}
	}
	return asm.Sym("v:" + v.Name() + "@" + fmt.Sprint(v.Pos()))
}

func (c *rebaseCtx) callLin(call *ssa.Call, ri int, result ssa.Value, env phiEnv, depth int) asm.Lin {
	// needs a []byte argument to be a position-returning search
	var hasBytes bool
	for _, a := range call.Call.Args {
		if isByteSlice(a.Type()) {
			hasBytes = true
		}
	}
	if !hasBytes {
		return asm.Sym("v:" + result.Name() + "@" + fmt.Sprint(result.Pos()))
	}
	g := call.Call.StaticCallee()
	coef, own, ok := c.calleeShape(g, ri)
	if call.Call.IsInvoke() {
		coef, own, ok = nil, true, true // interface contract: an absolute position in the haystack argument
	}
	if !ok {
		return asm.Sym("v:" + result.Name() + "@" + fmt.Sprint(result.Pos()))
	}
	out := asm.Const(0)
	if own {
		a := atomName(result)
		c.atoms[a] = call
		if _, had := c.adep[a]; !had || depth < c.adep[a] {
			c.adep[a] = depth
		}
		c.aenv[a] = env
		out = asm.Sym(a)
	}
	for j, k := range coef {
		// g.Params includes the receiver for methods, as do the call's Args
		if j < len(call.Call.Args) {
			out = out.Plus(c.lin(call.Call.Args[j], env, depth+1), k)
		}
	}
	return out
}

// baseOf: offset of the first byte of a []byte value relative to the subject's haystack parameter.
func (c *rebaseCtx) baseOf(v ssa.Value, env phiEnv, depth int) (asm.Lin, bool) {
	if depth > 6 {
		return asm.Lin{}, false
	}
	switch x := v.(type) {
	case *ssa.Parameter:
		if x == c.hay {
			return asm.Const(0), true
		}
	case *ssa.Slice:
		b, ok := c.baseOf(x.X, env, depth+1)
		if !ok {
			return asm.Lin{}, false
		}
		if x.Low == nil {
			return b, true
		}
		return b.Plus(c.lin(x.Low, env, 0), 1), true
	case *ssa.Phi:
		if i, ok := env[x.Block()]; ok {
			return c.baseOf(x.Edges[i], phiEnv{}, depth+1)
		}
	}
	return asm.Lin{}, false
}

// alternatives expands the phis a returned value depends on, one incoming edge of a block at a time.
func (c *rebaseCtx) alternatives(v ssa.Value) []phiEnv {
	blocks := map[*ssa.BasicBlock]bool{}
	var walk func(v ssa.Value, d int)
	seen := map[ssa.Value]bool{}
	walk = func(v ssa.Value, d int) {
		if d > 10 || seen[v] {
			return
		}
		seen[v] = true
		switch x := v.(type) {
		case *ssa.Phi:
			blocks[x.Block()] = true
		case *ssa.BinOp:
			walk(x.X, d+1)
			walk(x.Y, d+1)
		case *ssa.Convert:
			walk(x.X, d+1)
		case *ssa.Extract:
			walk(x.Tuple, d+1)
		case *ssa.Call:
			for _, a := range x.Call.Args {
				walk(a, d+1)
			}
		case *ssa.Slice:
			walk(x.X, d+1)
			if x.Low != nil {
				walk(x.Low, d+1)
			}
		}
	}
	walk(v, 0)
	envs := []phiEnv{{}}
	var bs []*ssa.BasicBlock
	for b := range blocks {
		bs = append(bs, b)
	}
	sort.Slice(bs, func(i, j int) bool { return bs[i].Index < bs[j].Index })
	for _, b := range bs {
		var next []phiEnv
		for _, e := range envs {
			for i := range b.Preds {
				n := phiEnv{}
				for k, v := range e {
					n[k] = v
				}
				n[b] = i
				next = append(next, n)
			}
		}
		envs = next
		if len(envs) > 64 {
			return nil
		}
	}
	return envs
}

func init() {
	core.Register(&core.Rule{
		Name: "R-REBASE",
		Doc: "A position found in a window is reported in the caller's coordinates. In every module function with a []byte parameter, a returned position that comes from a search of a re-sliced haystack S = h[b:] (a leaf byte search, an assembly kernel, another finder through the interface, or a module helper - whose own contribution of its arguments to its result is read off its return statements: findScalar returns start+i, verifyBucket hands its pos argument back) must have had exactly the window's base b added to it: over the symbols that occur in window bases of the function (start, accumulated offsets), the returned expression minus the found position equals base(S). Phis are expanded one incoming edge per block at a time, so a loop that re-slices by an accumulated offset and adds that offset back is checked for its entry edge and its back edge. A helper called with the rest of the haystack but the old base (findScalar(haystack[acc:], start)) returns positions short by acc: smaller than the real occurrence and >= start, so nothing downstream notices. Necessary for C16 (Find returns the smallest position at or after the offset where a literal occurs) and C12.",
		Min: 300, NeedSSA: true,
		Run: func(p *core.Prog) *core.RuleResult {
			res := &core.RuleResult{}
			subjects, errs := candidateFinders(p)
			if errs != "" {
				res.Fatal = append(res.Fatal, errs)
				return res
			}
			{
				subjects = nil
				for _, fn := range p.SrcFuncs() {
					if strings.HasSuffix(p.File(fn.Pos()), "_test.go") || fn.Parent() != nil || !p.InModule(ownPkg(fn)) {
						continue
					}
					subjects = append(subjects, fn)
				}
			}
			for _, fn := range subjects {
				var hay *ssa.Parameter
				for _, prm := range fn.Params {
					if isByteSlice(prm.Type()) && hay == nil {
						hay = prm
					}
				}
				if hay == nil {
					continue
				}
				name := core.FuncName(fn)
				kc := core.NewKeyCounter()
				// integer parameters that serve as the low bound of some window in this function
				lowParams := map[string]bool{}
				for _, b := range fn.Blocks {
					for _, in := range b.Instrs {
						if sl, ok := in.(*ssa.Slice); ok && sl.Low != nil && isByteSeq(sl.X.Type()) {
							for _, s := range ssaLin(sl.Low, map[string]bool{}, 0).Symbols() {
								if strings.HasPrefix(s, "go:") {
									lowParams[s] = true
								}
							}
						}
					}
				}
				for _, b := range fn.Blocks {
					for _, in := range b.Instrs {
						ret, ok := in.(*ssa.Return)
						if !ok {
							continue
						}
						for ri, v := range ret.Results {
							if !isIntType(v.Type()) {
								continue
							}
							if _, isC := v.(*ssa.Const); isC {
								continue
							}
							c := &rebaseCtx{p: p, fn: fn, hay: hay, atoms: map[string]ssa.Value{}, aenv: map[string]phiEnv{}, adep: map[string]int{}}
							envs := c.alternatives(v)
							if envs == nil {
								continue
							}
							status := core.Discharged
							detail := ""
							decided := 0
							for _, env := range envs {
								c.atoms, c.aenv, c.adep = map[string]ssa.Value{}, map[string]phiEnv{}, map[string]int{}
								e := c.lin(v, env, 0)
								pa := c.primaryAtom(e)
								if pa == "" {
									continue // not built around one found position (constant, start itself ...)
								}
								atoms := []string{pa}
								call := c.atoms[atoms[0]].(*ssa.Call)
								var S ssa.Value
								for _, a := range call.Call.Args {
									if isByteSlice(a.Type()) {
										S = a
										break
									}
								}
								base, ok := c.baseOf(S, c.aenv[pa], 0)
								if !ok {
									continue
								}
								decided++
								rest := e.Plus(asm.Sym(atoms[0]), -1)
								// frame symbols: those of the base, plus the function's integer parameters
								fs := map[string]bool{}
								for _, s := range base.Symbols() {
									fs[s] = true
								}
								_ = lowParams
								diff := rest.Plus(base, -1)
								var off []string
								for _, s := range diff.Symbols() {
									if fs[s] && diff.Coef(s) != 0 {
										off = append(off, fmt.Sprintf("%+d*%s", diff.Coef(s), s))
									}
								}
								if len(off) > 0 {
									status = core.Violated
									detail = fmt.Sprintf("the position found by %s in a window whose first byte is at %s of the haystack is returned as pos + (%s): off by %s", calleeName(call), base.String(), rest.String(), strings.Join(off, " "))
								}
							}
							if decided == 0 {
								continue
							}
							what := "returned position"
							if len(ret.Results) > 1 {
								what = fmt.Sprintf("returned position (result %d)", ri)
							}
							o := core.Obligation{Key: kc.Key("R-REBASE", name, what+" carries the base of its search window"), Pos: p.Pos(ret.Pos()), Nontrivial: true, Status: status}
							if status == core.Discharged {
								o.Detail = fmt.Sprintf("%d edge combination(s) checked: the window's base is added back exactly", decided)
							} else {
								o.Detail = detail
							}
							res.Obligations = append(res.Obligations, o)
						}
					}
				}
			}
			return res
		},
	})
}

func calleeName(call *ssa.Call) string {
	if g := call.Call.StaticCallee(); g != nil {
		return core.FuncName(g)
	}
	if call.Call.IsInvoke() {
		return call.Call.Method.Name() + " (interface)"
	}
	return call.Call.Value.Name()
}

func init() {
	core.Register(&core.Rule{
		Name: "R-NOSKIP",
		Doc: "After a rejected candidate the scan resumes at the very next byte. In the candidate finders of package prefilter (the implementations of Prefilter.Find/FindMatch) and the substring searchers of package simd (functions over a haystack and a needle) a loop that re-slices the haystack by an accumulated offset and searches the rest again must advance that offset by exactly (position of the rejected candidate in the window) + 1: over the linear domain, the back-edge value of the offset minus its previous value minus the candidate position is the constant 1. Resuming behind the fingerprint, behind the literal or at any other computed distance steps over a literal that starts inside the skipped bytes (a nibble-mask false positive at p followed by a real occurrence at p+1), and because these prefilters report themselves complete nothing re-checks the gap. Necessary for C16 (Find returns the smallest position at or after the offset; a candidate loop can never step over the start of a real match).",
		Min: 4, NeedSSA: true,
		Run: func(p *core.Prog) *core.RuleResult {
			res := &core.RuleResult{}
			subjects, errs := candidateFinders(p)
			if errs != "" {
				res.Fatal = append(res.Fatal, errs)
				return res
			}
			// the substring searchers of package simd (haystack and needle) run the same kind of candidate loop
			for _, fn := range p.SrcFuncs() {
				if ownPkg(fn) == nil || !strings.HasSuffix(ownPkg(fn).Path(), "/simd") || strings.HasSuffix(p.File(fn.Pos()), "_test.go") {
					continue
				}
				nb := 0
				for _, prm := range fn.Params {
					if isByteSlice(prm.Type()) {
						nb++
					}
				}
				if nb >= 2 && fn.Signature.Results().Len() == 1 && isIntType(fn.Signature.Results().At(0).Type()) {
					subjects = append(subjects, fn)
				}
			}
			for _, fn := range subjects {
				if ownPkg(fn) == nil || !(strings.HasSuffix(ownPkg(fn).Path(), "/prefilter") || strings.HasSuffix(ownPkg(fn).Path(), "/simd")) {
					continue
				}
				var hay *ssa.Parameter
				for _, prm := range fn.Params {
					if isByteSlice(prm.Type()) && hay == nil {
						hay = prm
					}
				}
				if hay == nil {
					continue
				}
				kc := core.NewKeyCounter()
				// accumulated offsets: integer phis used as the low bound of a window
				offs := map[*ssa.Phi]bool{}
				for _, b := range fn.Blocks {
					for _, in := range b.Instrs {
						if sl, ok := in.(*ssa.Slice); ok && sl.Low != nil && isByteSeq(sl.X.Type()) {
							if ph, ok := stripConv(sl.Low).(*ssa.Phi); ok {
								offs[ph] = true
							}
						}
					}
				}
				var phis []*ssa.Phi
				for ph := range offs {
					phis = append(phis, ph)
				}
				sort.Slice(phis, func(i, j int) bool { return phis[i].Pos() < phis[j].Pos() })
				for _, ph := range phis {
					for i, e := range ph.Edges {
						pred := ph.Block().Preds[i]
						if !(ph.Block() == pred || ph.Block().Dominates(pred)) {
							continue // entry edge
						}
						c := &rebaseCtx{p: p, fn: fn, hay: hay, atoms: map[string]ssa.Value{}, aenv: map[string]phiEnv{}, adep: map[string]int{}}
						l := c.lin(e, phiEnv{}, 0)
						self := "v:" + ph.Name() + "@" + fmt.Sprint(ph.Pos())
						step := l.Plus(asm.Sym(self), -1)
						o := core.Obligation{Key: kc.Key("R-NOSKIP", core.FuncName(fn), "rescan starts one byte after the rejected candidate"), Pos: p.Pos(e.Pos()), Nontrivial: true}
						// expected: exactly one position symbol (the candidate, itself loop-carried) with coefficient 1, constant 1
						var others []string
						cands := 0
						for _, s := range step.Symbols() {
							k := step.Coef(s)
							if k == 1 && (strings.HasPrefix(s, "pos:") || strings.HasPrefix(s, "v:")) && cands == 0 && s != self {
								cands++
								continue
							}
							others = append(others, fmt.Sprintf("%+d*%s", k, s))
						}
						k0 := step.Plus(asm.Const(0), 0)
						konst := int64(0)
						{
							tmp := k0
							for _, s := range tmp.Symbols() {
								tmp = tmp.Plus(asm.Sym(s), -tmp.Coef(s))
							}
							if len(tmp.Symbols()) == 0 {
								// constant part
								konst = constOf(tmp)
							}
						}
						switch {
						case cands == 1 && len(others) == 0 && konst == 1:
							o.Status = core.Discharged
							o.Detail = "offset' = offset + candidate + 1"
						default:
							o.Status = core.Violated
							o.Detail = fmt.Sprintf("the accumulated offset advances by (%s): not by the candidate's position plus exactly 1, so bytes after a rejected candidate are never searched as the start of a literal", step.String())
						}
						res.Obligations = append(res.Obligations, o)
					}
				}
			}
			return res
		},
	})
}

func constOf(l asm.Lin) int64 { return l.ConstPart() }
