package rules

import (
	"fmt"
	"go/token"
	"go/types"
	"strings"

	"golang.org/x/tools/go/ssa"

	"verif/internal/core"
)

// naturalLoops returns the natural loop of every loop header (the union over its back edges).
func naturalLoops(fn *ssa.Function) []map[*ssa.BasicBlock]bool {
	byHeader := map[*ssa.BasicBlock]map[*ssa.BasicBlock]bool{}
	for _, u := range fn.Blocks {
		for _, h := range u.Succs {
			if !(h == u || h.Dominates(u)) {
				continue
			}
			body := byHeader[h]
			if body == nil {
				body = map[*ssa.BasicBlock]bool{h: true}
				byHeader[h] = body
			}
			var stack []*ssa.BasicBlock
			if !body[u] {
				body[u] = true
				stack = append(stack, u)
			}
			for len(stack) > 0 {
				x := stack[len(stack)-1]
				stack = stack[:len(stack)-1]
				for _, pr := range x.Preds {
					if !body[pr] {
						body[pr] = true
						stack = append(stack, pr)
					}
				}
			}
		}
	}
	var loops []map[*ssa.BasicBlock]bool
	for _, b := range fn.Blocks {
		if l := byHeader[b]; l != nil {
			loops = append(loops, l)
		}
	}
	return loops
}

func readsLongest(v ssa.Value, seen map[ssa.Value]bool) bool {
	if v == nil || seen[v] {
		return false
	}
	seen[v] = true
	switch x := v.(type) {
	case *ssa.UnOp:
		if x.Op == token.MUL {
			if fa, ok := x.X.(*ssa.FieldAddr); ok && fieldNameOf(fa) == "Longest" {
				return true
			}
		}
		return readsLongest(x.X, seen)
	case *ssa.Field:
		return false
	case *ssa.BinOp:
		return readsLongest(x.X, seen) || readsLongest(x.Y, seen)
	case *ssa.Phi:
		for _, e := range x.Edges {
			if readsLongest(e, seen) {
				return true
			}
		}
	}
	return false
}

func init() {
	core.Register(&core.Rule{
		Name: "R-LONGESTBREAK",
		Doc: "Cutting the lower-priority threads at the first Match is leftmost-first behaviour. In every NFA simulation loop of package nfa (a loop over the thread queue that steps threads over an input byte and has a branch on NFA.IsMatch of a thread's state; the end-of-input variant, where every remaining thread can only match at the same position, is not subject), every path from the match branch that leaves the thread loop - the `break` that discards the threads after the matching one - passes a test of the Longest flag; falling out of the loop normally, continuing with the next thread and returning the constant true (an existence test needs no span) are free. Without the test the longer alternative that a later thread would reach is cut in longest mode too ((alpha|alphabet) under Longest() reports alpha). Eleven sibling loops carry the test on the pinned tree. Necessary for C10 (leftmost-longest mode) and C11 (the capture view agrees with the span view).",
		Min: 9, NeedSSA: true,
		Run: func(p *core.Prog) *core.RuleResult {
			res := &core.RuleResult{}
			kc := core.NewKeyCounter()
			pk := p.SSAPkg("nfa")
			if pk == nil {
				res.Fatal = append(res.Fatal, "package nfa not found")
				return res
			}
			for _, fn := range p.SrcFuncs() {
				if fn.Pkg != pk || strings.HasSuffix(p.File(fn.Pos()), "_test.go") {
					continue
				}
				var loops []map[*ssa.BasicBlock]bool
				for _, b := range fn.Blocks {
					if len(b.Instrs) == 0 {
						continue
					}
					iff, ok := b.Instrs[len(b.Instrs)-1].(*ssa.If)
					if !ok {
						continue
					}
					call, ok := iff.Cond.(*ssa.Call)
					if !ok {
						continue
					}
					g := call.Call.StaticCallee()
					if g == nil || g.Name() != "IsMatch" || g.Signature.Recv() == nil || !strings.HasSuffix(g.Signature.Recv().Type().String(), "nfa.NFA") {
						continue
					}
					if loops == nil {
						loops = naturalLoops(fn)
					}
					// innermost loop containing the branch
					var body map[*ssa.BasicBlock]bool
					for _, l := range loops {
						if l[b] && (body == nil || len(l) < len(body)) {
							body = l
						}
					}
					if body == nil {
						continue // not in a loop (matchesEmpty-style closure walk returns at once)
					}
					// only loops that also step threads over an input byte: in the end-of-input variant every
					// remaining thread can only match at the same position, so the first Match in priority order
					// is the answer in both modes
					steps := false
					for x := range body {
						for _, in2 := range x.Instrs {
							if c2, ok := in2.(ssa.CallInstruction); ok {
								for _, a := range c2.Common().Args {
									if bt, ok := a.Type().Underlying().(*types.Basic); ok && bt.Kind() == types.Uint8 {
										steps = true
									}
								}
							}
						}
					}
					if !steps {
						continue
					}
					T := b.Succs[0]
					// paths from T; state: passed a Longest test or not
					type st struct {
						b      *ssa.BasicBlock
						tested bool
					}
					seen := map[st]bool{}
					bad := ""
					var walk func(x *ssa.BasicBlock, tested bool)
					walk = func(x *ssa.BasicBlock, tested bool) {
						if bad != "" || seen[st{x, tested}] {
							return
						}
						seen[st{x, tested}] = true
						if x == b {
							return // next thread
						}
						if !body[x] {
							if tested {
								return
							}
							// a return of the constant true: existence test
							if len(x.Instrs) > 0 {
								if r, ok := x.Instrs[len(x.Instrs)-1].(*ssa.Return); ok && len(r.Results) == 1 {
									if c, ok := r.Results[0].(*ssa.Const); ok && c.Value != nil && c.Value.String() == "true" {
										return
									}
								}
							}
							bad = fmt.Sprintf("the thread loop is left at block %d (%s) without a test of Longest", x.Index, p.Pos(firstPos(x)))
							return
						}
						t := tested
						if len(x.Instrs) > 0 {
							if i2, ok := x.Instrs[len(x.Instrs)-1].(*ssa.If); ok && readsLongest(i2.Cond, map[ssa.Value]bool{}) {
								t = true
							}
						}
						// the loop header decides the normal end of the iteration: leaving from there is not a cut
						for _, s := range x.Succs {
							if !body[s] && isLoopHeaderOf(x, body) {
								continue
							}
							walk(s, t)
						}
					}
					walk(T, false)
					o := core.Obligation{Key: kc.Key("R-LONGESTBREAK", core.FuncName(fn), "cut at the first Match is conditional on !Longest"), Pos: p.Pos(call.Pos()), Nontrivial: true}
					if bad == "" {
						o.Status = core.Discharged
						o.Detail = "every exit of the thread loop from the match branch passes a test of Longest (or returns the constant true)"
					} else {
						o.Status = core.Violated
						o.Detail = bad + ": in longest mode the threads after the first matching one are discarded, so a longer alternative is lost"
					}
					res.Obligations = append(res.Obligations, o)
				}
			}
			return res
		},
	})
}

func firstPos(b *ssa.BasicBlock) token.Pos {
	for _, in := range b.Instrs {
		if in.Pos() != token.NoPos {
			return in.Pos()
		}
	}
	return token.NoPos
}

// isLoopHeaderOf: x is the block all back edges of the body lead to (it dominates every block of the body).
func isLoopHeaderOf(x *ssa.BasicBlock, body map[*ssa.BasicBlock]bool) bool {
	for b := range body {
		if b != x && !x.Dominates(b) {
			return false
		}
	}
	return true
}
