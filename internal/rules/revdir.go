package rules

import (
	"fmt"
	"go/token"
	"sort"
	"strings"

	"golang.org/x/tools/go/ssa"

	"verif/internal/core"
)

// scansBackwards: fn reads its []byte parameter at an index that is a loop variable stepping downwards
// (a phi with an incoming value phi-1): the scan loops of the reverse DFA searches.
func scansBackwards(fn *ssa.Function) bool {
	if fn == nil || fn.Blocks == nil {
		return false
	}
	hay := map[ssa.Value]bool{}
	for _, prm := range fn.Params {
		if isByteSlice(prm.Type()) {
			hay[prm] = true
		}
	}
	if len(hay) == 0 {
		return false
	}
	for _, b := range fn.Blocks {
		for _, in := range b.Instrs {
			ia, ok := in.(*ssa.IndexAddr)
			if !ok || !hay[ia.X] {
				continue
			}
			ph, ok := stripConv(ia.Index).(*ssa.Phi)
			if !ok {
				continue
			}
			for _, e := range ph.Edges {
				if bo, ok := e.(*ssa.BinOp); ok && bo.Op == token.SUB {
					if c, isC := constInt(bo.Y); isC && c == 1 && reachesPhi(bo.X, ph, 0) {
						return true
					}
				}
			}
		}
	}
	return false
}

func reachesPhi(v ssa.Value, ph *ssa.Phi, d int) bool {
	if v == ssa.Value(ph) {
		return true
	}
	if d > 3 {
		return false
	}
	if p2, ok := v.(*ssa.Phi); ok {
		for _, e := range p2.Edges {
			if reachesPhi(e, ph, d+1) {
				return true
			}
		}
	}
	if bo, ok := v.(*ssa.BinOp); ok && (bo.Op == token.ADD || bo.Op == token.SUB) {
		return reachesPhi(bo.X, ph, d+1)
	}
	return false
}

func init() {
	core.Register(&core.Rule{
		Name: "R-REVDIR",
		Doc: "An automaton that is scanned backwards is never handed to an engine that reads forwards. The lazy DFA's reverse searches (methods of lazy.DFA that read the haystack at a loop variable stepping downwards, and the helpers that only they call) run the DFA built from the REVERSED pattern; their fallback for 'the DFA gave up' must read the region backwards too. In those functions no call hands a haystack to a forward-reading simulator of the module (a method of nfa.PikeVM or nfa.BoundedBacktracker with a []byte argument): the PikeVM over the forward bytes reads a multi-byte rune in the wrong order, so as soon as the start set of a Unicode class exceeds the determinization limit \\pL+$ finds nothing in a Hangul syllable (UseReverseAnchored; regexp matches). Pinned tree: nfaFallbackReverse and four sites of IsMatchReverse => fixed (cache-free backward walk over the NFA state set). Necessary for C14 (engines exact or declined), C01/C02, C12 (limits change speed only).",
		Min: 3, NeedSSA: true,
		Run: func(p *core.Prog) *core.RuleResult {
			res := &core.RuleResult{}
			kc := core.NewKeyCounter()
			pk := p.SSAPkg("dfa/lazy")
			if pk == nil {
				res.Fatal = append(res.Fatal, "package dfa/lazy not found")
				return res
			}
			cg := p.CallGraph()
			rev := map[*ssa.Function]bool{}
			for _, fn := range p.SrcFuncs() {
				if fn.Pkg == pk && !strings.HasSuffix(p.File(fn.Pos()), "_test.go") && fn.Signature.Recv() != nil && strings.HasSuffix(fn.Signature.Recv().Type().String(), "lazy.DFA") && scansBackwards(fn) {
					rev[fn] = true
				}
			}
			// helpers whose every caller in the module is a reverse function
			for changed := true; changed; {
				changed = false
				for _, fn := range p.SrcFuncs() {
					if fn.Pkg != pk || rev[fn] || fn.Signature.Recv() == nil || !strings.HasSuffix(fn.Signature.Recv().Type().String(), "lazy.DFA") {
						continue
					}
					hasHay := false
					for _, prm := range fn.Params {
						if isByteSlice(prm.Type()) {
							hasHay = true
						}
					}
					n := cg.Nodes[fn]
					if !hasHay || n == nil || len(n.In) == 0 {
						continue
					}
					all := true
					for _, e := range n.In {
						if strings.HasSuffix(p.File(e.Caller.Func.Pos()), "_test.go") {
							continue
						}
						if !rev[e.Caller.Func] {
							all = false
						}
					}
					if all {
						rev[fn] = true
						changed = true
					}
				}
			}
			var fns []*ssa.Function
			for f := range rev {
				fns = append(fns, f)
			}
			sort.Slice(fns, func(i, j int) bool { return core.FuncName(fns[i]) < core.FuncName(fns[j]) })
			for _, fn := range fns {
				o := core.Obligation{Key: kc.Key("R-REVDIR", core.FuncName(fn), "no forward engine on the reversed automaton"), Pos: p.Pos(fn.Pos()), Nontrivial: true, Status: core.Discharged, Detail: "reads the haystack backwards (or is only called from such functions) and hands it to no PikeVM / backtracker"}
				for _, b := range fn.Blocks {
					for _, in := range b.Instrs {
						c, ok := in.(ssa.CallInstruction)
						if !ok {
							continue
						}
						cal := c.Common().StaticCallee()
						if cal == nil || cal.Signature.Recv() == nil {
							continue
						}
						if !nfaEngineMethod(cal) {
							continue
						}
						for _, a := range c.Common().Args[1:] {
							if isByteSlice(a.Type()) {
								o.Status = core.Violated
								o.Detail = fmt.Sprintf("%s at %s runs the DFA's automaton - the reversed pattern - over the forward bytes: multi-byte runes are read in the wrong order and the answer is wrong whenever the pattern is not its own mirror image", cal.Name(), p.Pos(in.Pos()))
							}
						}
					}
				}
				res.Obligations = append(res.Obligations, o)
			}
			return res
		},
	})
}
