package rules

import (
	"fmt"
	"go/types"
	"path/filepath"
	"sort"
	"strings"

	"verif/internal/asm"
	"verif/internal/core"
)

type asmInfo struct {
	funcs  []*asm.Func
	byName map[string]*asm.Func // pkgrel.Name
	errs   []string
	files  int
}

var asmCache = map[*core.Prog]*asmInfo{}

func loadAsm(p *core.Prog) *asmInfo {
	if ai, ok := asmCache[p]; ok {
		return ai
	}
	ai := &asmInfo{byName: map[string]*asm.Func{}}
	for _, pk := range p.Pkgs {
		for _, f := range pk.OtherFiles {
			if !strings.HasSuffix(f, ".s") {
				continue
			}
			rel, _ := filepath.Rel(core.RepoDir(), f)
			fs, err := asm.ParseFile(f, rel)
			if err != nil {
				ai.errs = append(ai.errs, err.Error())
				continue
			}
			ai.files++
			for _, fn := range fs {
				ai.funcs = append(ai.funcs, fn)
				ai.byName[strings.TrimPrefix(pk.PkgPath, core.ModPath+"/")+"."+fn.Name] = fn
			}
		}
	}
	asmCache[p] = ai
	return ai
}

// bodiless lists module functions declared without a body (implemented in assembly).
func bodiless(p *core.Prog) map[string]*types.Func {
	out := map[string]*types.Func{}
	for obj, fd := range p.Decls {
		if fd.Body == nil {
			out[core.ObjName(obj)] = obj
		}
	}
	return out
}

func asmWriteSummary(p *core.Prog) map[string][]int {
	ai := loadAsm(p)
	out := map[string][]int{}
	for name, obj := range bodiless(p) {
		fn := ai.byName[name]
		if fn == nil {
			continue // leaves it without summary: calls become undecided
		}
		if len(fn.Unknown) > 0 {
			continue
		}
		sig := obj.Type().(*types.Signature)
		var idx []int
		for i := 0; i < sig.Params().Len(); i++ {
			if fn.Written[sig.Params().At(i).Name()] {
				idx = append(idx, i)
			}
		}
		out[name] = idx
	}
	return out
}

func init() {
	core.Register(&core.Rule{
		Name: "R-ASMSTORE",
		Doc: "In every TEXT block of the assembly sources, each instruction whose destination operand is memory writes only to the routine's own stack frame, a result slot (name+off(FP)), or an address derived (MOV/LEA/ADD chains, joined at labels) from a Go parameter that is a non-byte slice (an output buffer); never to an address derived from a []byte/string/pointer parameter (haystack, masks) and never to an address of unknown provenance. Necessary for C07/C18 (no stray write, haystack unmodified). Also yields the write summaries of bodiless functions used by R-SHARED/R-RO. Over-reads are not decided.",
		Min: 14, ThoroughArchs: []string{}, // all assembly sources are amd64-only
		Run: func(p *core.Prog) *core.RuleResult {
			ai := loadAsm(p)
			res := &core.RuleResult{}
			for _, e := range ai.errs {
				res.Fatal = append(res.Fatal, "asm parse: "+e)
			}
			bl := bodiless(p)
			kc := core.NewKeyCounter()
			var names []string
			for n := range bl {
				names = append(names, n)
			}
			sort.Strings(names)
			totalInstr, totalStores := 0, 0
			for _, name := range names {
				obj := bl[name]
				fn := ai.byName[name]
				o := core.Obligation{Key: "R-ASMSTORE|" + name + "|has-text-block", Pos: p.Pos(obj.Pos())}
				if fn == nil {
					o.Status = core.Undecided
					o.Detail = "bodiless Go function without a parsed TEXT block"
					res.Obligations = append(res.Obligations, o)
					continue
				}
				o.Detail = fmt.Sprintf("%s:%d, %d instructions, %d memory-destination instructions", fn.File, fn.Line, fn.Instrs, len(fn.Stores))
				res.Obligations = append(res.Obligations, o)
				totalInstr += fn.Instrs
				sig := obj.Type().(*types.Signature)
				ptype := map[string]types.Type{}
				for i := 0; i < sig.Params().Len(); i++ {
					ptype[sig.Params().At(i).Name()] = sig.Params().At(i).Type()
				}
				for _, st := range fn.Stores {
					totalStores++
					mn := strings.Fields(st.Instr)[0]
					so := core.Obligation{Key: kc.Key("R-ASMSTORE", name, "store "+mn+" -> "+st.Target), Pos: fmt.Sprintf("%s:%d", st.File, st.Line), Nontrivial: true}
					so.Detail = st.Instr + " ; address provenance " + fmt.Sprint(st.Prov)
					switch {
					case st.Target == "unknown":
						so.Status = core.Undecided
						so.Detail += " ; address has no tracked provenance"
					case st.Target == "frame" || strings.HasPrefix(st.Target, "result:"):
						so.Status = core.Discharged
					case st.Target == "static":
						so.Status = core.Violated
						so.Detail += " ; write to a static symbol"
					default:
						so.Status = core.Discharged
						for _, pr := range st.Prov {
							if !strings.HasPrefix(pr, "param:") {
								continue
							}
							pn := strings.TrimPrefix(pr, "param:")
							t := ptype[pn]
							if t == nil {
								so.Status = core.Undecided
								so.Detail += " ; parameter " + pn + " not in Go signature"
								continue
							}
							if sl, ok := t.Underlying().(*types.Slice); ok {
								if b, ok := sl.Elem().Underlying().(*types.Basic); ok && b.Kind() == types.Uint8 {
									so.Status = core.Violated
									so.Detail += " ; writes into []byte parameter " + pn
								}
							} else {
								so.Status = core.Violated
								so.Detail += " ; writes through non-buffer parameter " + pn + " " + t.String()
							}
						}
					}
					res.Obligations = append(res.Obligations, so)
				}
			}
			// TEXT blocks without Go declaration
			for n, fn := range ai.byName {
				if _, ok := bl[n]; !ok {
					res.Obligations = append(res.Obligations, core.Obligation{Key: "R-ASMSTORE|" + n + "|has-go-declaration", Pos: fmt.Sprintf("%s:%d", fn.File, fn.Line), Status: core.Undecided, Detail: "TEXT block without a bodiless Go declaration in this build configuration"})
				}
			}
			res.Notes = append(res.Notes, fmt.Sprintf("assembly files=%d TEXT blocks=%d instructions=%d memory-destination instructions=%d", ai.files, len(ai.funcs), totalInstr, totalStores))
			return res
		},
	})
}
