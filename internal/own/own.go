// Package own implements the ownership-class analysis of DESIGN §3.4: every SSA value
// gets a class from FRESH < STATE < OUT < INPUT < SHARED, propagated intra-procedurally
// over SSA and inter-procedurally by summaries keyed by (function, parameter classes).
// Write events (Store, MapUpdate, append/copy, known writers, assembly out-params) are
// collected with the class of the written memory and an attribution site.
package own

import (
	"fmt"
	"go/token"
	"go/types"
	"sort"
	"strings"

	"golang.org/x/tools/go/callgraph"
	"golang.org/x/tools/go/ssa"

	"verif/internal/core"
)

type Class uint8

const (
	FRESH Class = iota
	STATE
	OUT
	INPUT
	SHARED
)

func (c Class) String() string {
	return [...]string{"FRESH", "STATE", "OUT", "INPUT", "SHARED"}[c]
}

// Val is the abstract value of an SSA value inside one frame.
type Val struct {
	C Class
	// Attrib: (SHARED only) derived in this frame from a shared container parameter, a
	// package-level variable, or shared content of unknown origin: a write through it is
	// attributed to this frame.
	Attrib bool
	// Params: (SHARED only, !Attrib) frame parameters (incl. free variables) it derives from.
	Params uint64
	Path   string
	// Opaque: user-supplied callback / interface value (root parameters): calls through it are skipped.
	Opaque bool
	// Key: for addresses, the memory-cell key used for content tracking ("" = by pointee type).
	Key string
}

func join(a, b Val) Val {
	r := a
	if b.C > r.C {
		r.C = b.C
		r.Path = b.Path
		r.Attrib = b.Attrib
		r.Params = b.Params
	} else if b.C == r.C {
		r.Attrib = a.Attrib || b.Attrib
		r.Params = a.Params | b.Params
		if r.Path == "" {
			r.Path = b.Path
		}
	}
	if r.C != SHARED && r.C != INPUT {
		r.Attrib = false
		r.Params = 0
	}
	r.Opaque = a.Opaque || b.Opaque
	if a.Key != b.Key {
		r.Key = ""
	}
	return r
}

func eqVal(a, b Val) bool {
	return a.C == b.C && a.Attrib == b.Attrib && a.Params == b.Params && a.Opaque == b.Opaque && a.Key == b.Key
}

// Event is a write to memory (or another effect of interest) found at an instruction.
type Event struct {
	Fn     *ssa.Function
	Instr  ssa.Instruction
	Kind   string // "store", "mapupdate", "append", "copy", "call", "asm", "go", "stdlib-writer", "unknown-call"
	Desc   string // construct description used in keys
	Class  Class  // worst class of the written memory over all contexts
	Viol   string // "", "SHARED", "INPUT", "GO", "UNDECIDED"
	Detail string
	Path   []string // call chain from a root to the frame (first witness)
	// Deep: for call-attributed violations, where the actual store happens (first witness).
	Deep string
}

type ctxKey struct {
	fn  *ssa.Function
	sig string
}

// Summary of a function under a context.
type Summary struct {
	Rets        []Val  // per result; Params refer to callee parameter indices
	WritesParam uint64 // SHARED, non-container parameters whose memory is written (transitively)
	DeepWrite   map[int]string
	done        bool
}

// Analysis is one whole-program run.
type Analysis struct {
	P  *core.Prog
	CG *callgraph.Graph

	Containers map[*types.Named]bool // shared-only struct types
	PerSearch  map[*types.Named]bool

	Roots []*Root

	contentOpaque map[string]bool
	content    map[string]Class // memory-cell key -> join of classes stored into non-shared memory
	contentWhy map[string]string
	freeVars   map[*ssa.Function][]Val
	summaries  map[ctxKey]*Summary
	inProgress map[ctxKey]bool
	changed    bool

	events map[ssa.Instruction]*Event
	// Reached: functions analysed under at least one context.
	Reached map[*ssa.Function]bool
	// Contexts counts (fn, ctx) pairs analysed.
	Contexts int
	Rounds   int

	stack []string
	// StdlibSeen lists stdlib callees encountered on search paths with how they were treated.
	StdlibSeen map[string]string
	// AsmWrites: bodiless module functions -> parameter indices they may write (from the asm rule).
	AsmWrites map[string][]int
	// CompileCuts: compile roots reached from search roots and not descended into.
	CompileCuts map[string]bool
}

// Root is an entry point with the classes of its parameters.
type Root struct {
	Fn     *ssa.Function
	Params []Val
	Why    string
}

func isPtrLike(t types.Type) bool {
	switch u := t.Underlying().(type) {
	case *types.Pointer, *types.Slice, *types.Map, *types.Chan, *types.Signature, *types.Interface:
		return true
	case *types.Basic:
		return u.Kind() == types.String || u.Kind() == types.UnsafePointer
	case *types.Struct:
		for i := 0; i < u.NumFields(); i++ {
			if isPtrLike(u.Field(i).Type()) {
				return true
			}
		}
	case *types.Array:
		return isPtrLike(u.Elem())
	case *types.Tuple:
		for i := 0; i < u.Len(); i++ {
			if isPtrLike(u.At(i).Type()) {
				return true
			}
		}
	}
	return false
}

func namedOf(t types.Type) *types.Named {
	for {
		switch u := t.(type) {
		case *types.Pointer:
			t = u.Elem()
			continue
		case *types.Named:
			return u
		case *types.Alias:
			t = types.Unalias(u)
			continue
		}
		return nil
	}
}

// containerPtr reports whether t is a pointer to (or is) a shared-only struct type.
func (a *Analysis) containerPtr(t types.Type) bool {
	n := namedOf(t)
	if n == nil {
		return false
	}
	if n.Origin() != nil {
		n = n.Origin()
	}
	return a.Containers[n]
}

// New prepares an analysis over the program: call graph, container types.
func New(p *core.Prog) *Analysis {
	a := &Analysis{P: p, CG: p.CallGraph(),
		Containers: map[*types.Named]bool{}, PerSearch: map[*types.Named]bool{},
		contentOpaque: map[string]bool{},
		content: map[string]Class{}, contentWhy: map[string]string{},
		freeVars:  map[*ssa.Function][]Val{},
		summaries: map[ctxKey]*Summary{}, inProgress: map[ctxKey]bool{},
		events: map[ssa.Instruction]*Event{}, Reached: map[*ssa.Function]bool{},
		StdlibSeen: map[string]string{},
		AsmWrites:  map[string][]int{},
		CompileCuts: map[string]bool{},
	}
	return a
}

// inScope: functions whose bodies are analysed (module + non-stdlib deps).
func (a *Analysis) inScope(fn *ssa.Function) bool {
	pk := fnPkg(fn)
	if pk == nil {
		return false
	}
	if a.P.InModule(pk) {
		return true
	}
	path := pk.Path()
	return strings.HasPrefix(path, "github.com/coregx/")
}

// FnPkg exposes the package a function belongs to (origin package for instantiations and wrappers).
func FnPkg(fn *ssa.Function) *types.Package { return fnPkg(fn) }

func fnPkg(fn *ssa.Function) *types.Package {
	if fn.Pkg != nil {
		return fn.Pkg.Pkg
	}
	if o := fn.Origin(); o != nil && o.Pkg != nil {
		return o.Pkg.Pkg
	}
	if fn.Object() != nil {
		return fn.Object().Pkg()
	}
	// wrappers / bound methods: use the receiver's or underlying object's package
	if fn.Synthetic != "" && fn.Signature.Recv() != nil {
		if n := namedOf(fn.Signature.Recv().Type()); n != nil && n.Obj() != nil {
			return n.Obj().Pkg()
		}
	}
	if fn.Parent() != nil {
		return fnPkg(fn.Parent())
	}
	return nil
}

// ComputeContainers determines PerSearch (struct types allocated in functions reachable from
// the roots) and Containers (all other module struct types).
func (a *Analysis) ComputeContainers(rootFns []*ssa.Function) {
	reach := a.reachableCut(rootFns, IsCompileRoot)
	var mark func(t types.Type)
	mark = func(t types.Type) {
		switch u := t.(type) {
		case *types.Named:
			o := u
			if o.Origin() != nil {
				o = o.Origin()
			}
			if _, ok := o.Underlying().(*types.Struct); ok {
				if a.PerSearch[o] {
					return
				}
				a.PerSearch[o] = true
			}
			mark(u.Underlying())
		case *types.Alias:
			mark(types.Unalias(u))
		case *types.Struct:
			for i := 0; i < u.NumFields(); i++ {
				ft := u.Field(i).Type()
				// by-value nesting only
				switch ft.Underlying().(type) {
				case *types.Struct, *types.Array:
					mark(ft)
				}
			}
		case *types.Array:
			mark(u.Elem())
		}
	}
	for fn := range reach {
		if !a.inScope(fn) {
			continue
		}
		for _, b := range fn.Blocks {
			for _, in := range b.Instrs {
				switch x := in.(type) {
				case *ssa.Alloc:
					mark(x.Type().(*types.Pointer).Elem())
				case *ssa.MakeSlice:
					if s, ok := x.Type().Underlying().(*types.Slice); ok {
						mark(s.Elem())
					}
				case *ssa.Call:
					if b, ok := x.Call.Value.(*ssa.Builtin); ok && b.Name() == "append" {
						if s, ok := x.Type().Underlying().(*types.Slice); ok {
							mark(s.Elem())
						}
					}
				}
			}
		}
	}
	for _, pk := range a.P.All {
		if !a.P.InModule(pk.Types) && !strings.HasPrefix(pk.PkgPath, "github.com/coregx/") {
			continue
		}
		sc := pk.Types.Scope()
		for _, nm := range sc.Names() {
			tn, ok := sc.Lookup(nm).(*types.TypeName)
			if !ok {
				continue
			}
			n, ok := tn.Type().(*types.Named)
			if !ok {
				continue
			}
			if _, ok := n.Underlying().(*types.Struct); !ok {
				continue
			}
			if !a.PerSearch[n] {
				a.Containers[n] = true
			}
		}
	}
}

// IsCompileRoot: package-level constructors of the compiled object (Compile*, MustCompile*) in the
// root and meta packages. Allocation below them builds a new compiled object and is not per-search.
func IsCompileRoot(fn *ssa.Function) bool {
	if fn.Signature.Recv() != nil || fn.Parent() != nil {
		return false
	}
	pk := fnPkg(fn)
	if pk == nil || (pk.Path() != core.ModPath && pk.Path() != core.ModPath+"/meta") {
		return false
	}
	return strings.HasPrefix(fn.Name(), "Compile") || strings.HasPrefix(fn.Name(), "MustCompile")
}

// ReachableFrom computes call-graph reachability.
func (a *Analysis) ReachableFrom(fns []*ssa.Function) map[*ssa.Function]bool {
	return a.reachableCut(fns, nil)
}

func (a *Analysis) reachableCut(fns []*ssa.Function, cut func(*ssa.Function) bool) map[*ssa.Function]bool {
	seen := map[*ssa.Function]bool{}
	var stack []*ssa.Function
	for _, f := range fns {
		if f != nil && !seen[f] {
			seen[f] = true
			stack = append(stack, f)
		}
	}
	for len(stack) > 0 {
		f := stack[len(stack)-1]
		stack = stack[:len(stack)-1]
		n := a.CG.Nodes[f]
		if n == nil {
			continue
		}
		// do not walk through stdlib bodies
		if !a.inScope(f) {
			continue
		}
		for _, e := range n.Out {
			c := e.Callee.Func
			if cut != nil && cut(c) {
				continue
			}
			if !seen[c] {
				seen[c] = true
				stack = append(stack, c)
			}
		}
		// closures created here are potentially run later
		for _, an := range f.AnonFuncs {
			if !seen[an] {
				seen[an] = true
				stack = append(stack, an)
			}
		}
	}
	return seen
}

// Run analyses all roots to a global fixpoint.
func (a *Analysis) Run() {
	for round := 0; round < 30; round++ {
		a.Rounds = round + 1
		a.changed = false
		// events are recomputed every round: the last round sees the final facts
		a.events = map[ssa.Instruction]*Event{}
		a.StdlibSeen = map[string]string{}
		for k, s := range a.summaries {
			_ = k
			s.done = false
		}
		for _, r := range a.Roots {
			a.stack = a.stack[:0]
			a.analyse(r.Fn, r.Params, nil)
		}
		if !a.changed {
			return
		}
	}
	panic("own: no fixpoint after 30 rounds")
}

func ctxSig(vals []Val) string {
	var sb strings.Builder
	for _, v := range vals {
		sb.WriteByte('0' + byte(v.C))
		if v.Opaque {
			sb.WriteByte('o')
		}
	}
	return sb.String()
}

// analyse returns the summary of fn under the given parameter values (params then free vars).
func (a *Analysis) analyse(fn *ssa.Function, args []Val, chain []string) *Summary {
	key := ctxKey{fn, ctxSig(args)}
	s := a.summaries[key]
	if s == nil {
		s = &Summary{DeepWrite: map[int]string{}}
		a.summaries[key] = s
		a.changed = true
		a.Contexts++
	}
	if s.done || a.inProgress[key] {
		return s
	}
	a.inProgress[key] = true
	a.Reached[fn] = true
	fr := &frame{a: a, fn: fn, env: map[ssa.Value]Val{}, tuples: map[ssa.Value][]Val{}, sum: s, chain: append(chain, core.FuncName(fn))}
	fr.run(args)
	delete(a.inProgress, key)
	s.done = true
	return s
}

type frame struct {
	a      *Analysis
	fn     *ssa.Function
	env    map[ssa.Value]Val
	tuples map[ssa.Value][]Val
	sum    *Summary
	chain  []string
	dirty  bool
	nparam int
}

func (fr *frame) get(v ssa.Value) Val {
	switch x := v.(type) {
	case *ssa.Const:
		return Val{}
	case *ssa.Global:
		return Val{C: SHARED, Attrib: true, Path: globalName(x)}
	case *ssa.Function:
		return Val{}
	case *ssa.Builtin:
		return Val{}
	}
	return fr.env[v]
}

func globalName(g *ssa.Global) string {
	if g.Pkg != nil {
		return strings.TrimPrefix(strings.TrimPrefix(g.Pkg.Pkg.Path(), core.ModPath+"/"), core.ModPath) + "." + g.Name()
	}
	return g.Name()
}

func (fr *frame) set(v ssa.Value, nv Val) {
	if !isPtrLike(v.Type()) {
		// keep opaque/none
		if _, isTuple := v.Type().(*types.Tuple); !isTuple {
			return
		}
	}
	old, ok := fr.env[v]
	j := nv
	if ok {
		j = join(old, nv)
	}
	// re-rooting: a shared pointer to a container object is attributed here
	if j.C == SHARED && !j.Attrib && fr.a.containerPtr(v.Type()) {
		j.Attrib = true
		j.Params = 0
	}
	if !ok || !eqVal(old, j) {
		fr.env[v] = j
		fr.dirty = true
	}
}

func (fr *frame) run(args []Val) {
	fn := fr.fn
	fr.nparam = len(fn.Params)
	for i, p := range fn.Params {
		var v Val
		if i < len(args) {
			v = args[i]
		}
		v.Params = 0
		v.Attrib = false
		v.Key = ""
		if v.C == SHARED {
			if fr.a.containerPtr(p.Type()) {
				v.Attrib = true
			} else {
				v.Params = 1 << uint(i)
			}
		}
		v.Path = p.Name()
		fr.env[p] = v
	}
	fvs := fr.a.freeVars[fn]
	for i, fv := range fn.FreeVars {
		var v Val
		if i < len(fvs) {
			v = fvs[i]
		}
		if v.C == SHARED {
			v.Attrib = true
			v.Params = 0
		}
		if v.Path == "" {
			v.Path = fv.Name()
		}
		fr.env[fv] = v
	}
	for iter := 0; iter < 50; iter++ {
		fr.dirty = false
		for _, b := range fn.Blocks {
			for _, in := range b.Instrs {
				fr.step(in)
			}
		}
		if !fr.dirty {
			break
		}
	}
}

// cellKey gives the content-tracking key of the memory cell an address denotes.
func (fr *frame) cellKey(addr ssa.Value) string {
	switch x := addr.(type) {
	case *ssa.FieldAddr:
		st := x.X.Type().Underlying().(*types.Pointer).Elem()
		f := st.Underlying().(*types.Struct).Field(x.Field)
		return "field:" + core.TypeName(st) + "." + f.Name()
	case *ssa.IndexAddr:
		return "elem:" + core.TypeName(x.Type().(*types.Pointer).Elem())
	case *ssa.Alloc:
		if allocIsLocalOnly(x) {
			return fmt.Sprintf("alloc:%s#%s", core.FuncName(x.Parent()), x.Name())
		}
	}
	if pt, ok := addr.Type().Underlying().(*types.Pointer); ok {
		return "cell:" + core.TypeName(pt.Elem())
	}
	return "cell:?"
}

var allocLocalCache = map[*ssa.Alloc]bool{}

func allocIsLocalOnly(x *ssa.Alloc) bool {
	if v, ok := allocLocalCache[x]; ok {
		return v
	}
	ok := true
	if refs := x.Referrers(); refs != nil {
		for _, r := range *refs {
			switch u := r.(type) {
			case *ssa.UnOp:
			case *ssa.Store:
				if u.Val == ssa.Value(x) {
					ok = false
				}
			case *ssa.DebugRef:
			default:
				ok = false
			}
		}
	}
	allocLocalCache[x] = ok
	return ok
}

func (fr *frame) addContent(key string, c Class, why string) {
	if c > fr.a.content[key] {
		fr.a.content[key] = c
		fr.a.contentWhy[key] = why
		fr.a.changed = true
	}
}

func fieldName(x *ssa.FieldAddr) string {
	st := x.X.Type().Underlying().(*types.Pointer).Elem().Underlying().(*types.Struct)
	return st.Field(x.Field).Name()
}

func (fr *frame) step(in ssa.Instruction) {
	switch x := in.(type) {
	case *ssa.Alloc:
		fr.set(x, Val{C: FRESH, Path: "new(" + core.TypeName(x.Type().(*types.Pointer).Elem()) + ")"})
	case *ssa.MakeSlice, *ssa.MakeMap, *ssa.MakeChan:
		fr.set(x.(ssa.Value), Val{C: FRESH, Path: "make"})
	case *ssa.MakeClosure:
		fn := x.Fn.(*ssa.Function)
		fvs := fr.a.freeVars[fn]
		if len(fvs) < len(x.Bindings) {
			fvs = append(fvs, make([]Val, len(x.Bindings)-len(fvs))...)
		}
		res := Val{C: FRESH, Path: "closure"}
		for i, b := range x.Bindings {
			bv := fr.get(b)
			nv := join(fvs[i], Val{C: bv.C, Opaque: bv.Opaque, Path: bv.Path})
			nv.Key = ""
			if !eqVal(nv, fvs[i]) {
				fvs[i] = nv
				fr.a.changed = true
			}
			res = join(res, Val{C: bv.C, Attrib: bv.Attrib, Params: bv.Params, Path: bv.Path})
		}
		fr.a.freeVars[fn] = fvs
		res.Key = ""
		fr.set(x, res)
	case *ssa.FieldAddr:
		b := fr.get(x.X)
		b.Path = b.Path + "." + fieldName(x)
		b.Key = ""
		fr.set(x, b)
	case *ssa.Field:
		b := fr.get(x.X)
		st := x.X.Type().Underlying().(*types.Struct)
		b.Path = b.Path + "." + st.Field(x.Field).Name()
		b.Key = ""
		fr.set(x, b)
	case *ssa.IndexAddr:
		b := fr.get(x.X)
		b.Path += "[]"
		b.Key = ""
		fr.set(x, b)
	case *ssa.Index:
		b := fr.get(x.X)
		b.Path += "[]"
		fr.set(x, b)
	case *ssa.Lookup:
		b := fr.get(x.X)
		b.Path += "[k]"
		if _, isMap := x.X.Type().Underlying().(*types.Map); isMap && b.C <= OUT {
			key := "elem:" + core.TypeName(x.X.Type().Underlying().(*types.Map).Elem())
			if c := fr.a.content[key]; c > b.C {
				b = join(b, Val{C: c, Attrib: c == SHARED, Path: b.Path})
			}
		}
		if x.CommaOk {
			fr.tuples[x] = []Val{b, {}}
			fr.set(x, b)
		} else {
			fr.set(x, b)
		}
	case *ssa.UnOp:
		switch x.Op {
		case token.MUL: // load
			av := fr.get(x.X)
			res := av
			res.Key = ""
			if av.C <= OUT && isPtrLike(x.Type()) {
				key := fr.cellKey(x.X)
				if c := fr.a.content[key]; c > res.C {
					res = join(res, Val{C: c, Attrib: c == SHARED, Path: res.Path + "{" + key + "}"})
				}
				if fr.a.contentOpaque[key] {
					res.Opaque = true
				}
			}
			fr.set(x, res)
		case token.ARROW:
			fr.set(x, fr.get(x.X))
		default:
		}
	case *ssa.Store:
		av := fr.get(x.Addr)
		vv := fr.get(x.Val)
		fr.write(in, "store", "store "+storeDesc(x.Addr), av, "")
		if av.C <= OUT && vv.Opaque && !fr.a.contentOpaque[fr.cellKey(x.Addr)] {
			fr.a.contentOpaque[fr.cellKey(x.Addr)] = true
			fr.a.changed = true
		}
		if av.C <= OUT && isPtrLike(x.Val.Type()) {
			fr.addContent(fr.cellKey(x.Addr), vv.C, fmt.Sprintf("%s: store of %s-class %s", core.FuncName(fr.fn), vv.C, vv.Path))
		}
	case *ssa.MapUpdate:
		mv := fr.get(x.Map)
		fr.write(in, "mapupdate", "mapupdate "+core.TypeName(x.Map.Type()), mv, "")
		if mv.C <= OUT {
			vv := fr.get(x.Value)
			if isPtrLike(x.Value.Type()) {
				fr.addContent("elem:"+core.TypeName(x.Map.Type().Underlying().(*types.Map).Elem()), vv.C, core.FuncName(fr.fn)+": map update")
			}
		}
	case *ssa.Phi:
		var r Val
		first := true
		for _, e := range x.Edges {
			ev := fr.get(e)
			if first {
				r = ev
				first = false
			} else {
				r = join(r, ev)
			}
		}
		fr.set(x, r)
	case *ssa.Extract:
		if t, ok := fr.tuples[x.Tuple]; ok && x.Index < len(t) {
			fr.set(x, t[x.Index])
		} else {
			fr.set(x, fr.get(x.Tuple))
		}
	case *ssa.ChangeType:
		fr.set(x, fr.get(x.X))
	case *ssa.Convert:
		v := fr.get(x.X)
		// string <-> []byte conversions copy
		_, fromStr := x.X.Type().Underlying().(*types.Basic)
		_, toStr := x.Type().Underlying().(*types.Basic)
		if fromStr != toStr {
			fr.set(x, Val{C: FRESH, Path: "copy"})
		} else {
			fr.set(x, v)
		}
	case *ssa.MultiConvert:
		fr.set(x, fr.get(x.X))
	case *ssa.ChangeInterface:
		fr.set(x, fr.get(x.X))
	case *ssa.MakeInterface:
		fr.set(x, fr.get(x.X))
	case *ssa.TypeAssert:
		v := fr.get(x.X)
		if x.CommaOk {
			fr.tuples[x] = []Val{v, {}}
		}
		fr.set(x, v)
	case *ssa.Slice:
		v := fr.get(x.X)
		v.Key = ""
		fr.set(x, v)
	case *ssa.SliceToArrayPointer:
		fr.set(x, fr.get(x.X))
	case *ssa.BinOp:
		// strings: concatenation allocates; comparisons are not pointer-like
	case *ssa.Range:
		fr.set(x, fr.get(x.X))
	case *ssa.Next:
		v := fr.get(x.Iter)
		fr.tuples[x] = []Val{{}, {}, v}
		fr.set(x, v)
	case *ssa.Select:
	case *ssa.Send:
	case *ssa.Go:
		fr.event(in, "go", "go statement", SHARED, "GO", "goroutine started on a search path", "")
		fr.call(in, x.Common())
	case *ssa.Defer:
		fr.call(in, x.Common())
	case *ssa.Call:
		fr.call(in, x.Common())
	case *ssa.Return:
		for len(fr.sum.Rets) < len(x.Results) {
			fr.sum.Rets = append(fr.sum.Rets, Val{})
		}
		for i, r := range x.Results {
			rv := fr.get(r)
			rv.Key = ""
			// free-variable-derived shared values keep Attrib
			nv := join(fr.sum.Rets[i], rv)
			// Params above nparam are free variables: not translatable by callers
			if !eqVal(nv, fr.sum.Rets[i]) {
				fr.sum.Rets[i] = nv
				fr.a.changed = true
			}
		}
	case *ssa.RunDefers, *ssa.Jump, *ssa.If, *ssa.Panic, *ssa.DebugRef:
	default:
		_ = x
	}
}

func storeDesc(addr ssa.Value) string {
	switch x := addr.(type) {
	case *ssa.FieldAddr:
		st := x.X.Type().Underlying().(*types.Pointer).Elem()
		return core.TypeName(st) + "." + fieldName(x)
	case *ssa.IndexAddr:
		return storeDesc(x.X) + "[]"
	case *ssa.UnOp:
		return storeDesc(x.X)
	case *ssa.Alloc:
		return "local"
	case *ssa.Global:
		return globalName(x)
	case *ssa.Parameter:
		return "*" + x.Name()
	case *ssa.FreeVar:
		return "*" + x.Name()
	case *ssa.Slice:
		return storeDesc(x.X)
	}
	return "*" + core.TypeName(addr.Type())
}

// write records a write event to memory of abstract value av at instruction in.
func (fr *frame) write(in ssa.Instruction, kind, desc string, av Val, deep string) {
	switch av.C {
	case SHARED:
		if av.Attrib {
			fr.event(in, kind, desc, SHARED, "SHARED", "write to memory reachable from the shared compiled object via "+av.Path, deep)
		} else {
			fr.event(in, kind, desc, SHARED, "", "", "")
		}
		if av.Params != 0 {
			where := deep
			if where == "" {
				where = core.FuncName(fr.fn) + ": " + desc + " @" + fr.a.P.Pos(in.Pos())
			}
			for i := 0; i < 64; i++ {
				if av.Params&(1<<uint(i)) != 0 {
					if fr.sum.WritesParam&(1<<uint(i)) == 0 {
						fr.sum.WritesParam |= 1 << uint(i)
						fr.sum.DeepWrite[i] = where
						fr.a.changed = true
					}
				}
			}
		}
	case INPUT:
		fr.event(in, kind, desc, INPUT, "INPUT", "write to caller-owned input bytes via "+av.Path, deep)
	default:
		fr.event(in, kind, desc, av.C, "", "", "")
	}
}

func (fr *frame) event(in ssa.Instruction, kind, desc string, c Class, viol, detail, deep string) {
	ev := fr.a.events[in]
	if ev == nil {
		ev = &Event{Fn: fr.fn, Instr: in, Kind: kind, Desc: desc, Class: c}
		fr.a.events[in] = ev
	}
	if c > ev.Class {
		ev.Class = c
	}
	if viol != "" && ev.Viol == "" {
		ev.Viol = viol
		ev.Detail = detail
		ev.Deep = deep
		ev.Path = append([]string(nil), fr.chain...)
	}
}

// Events returns all write events ordered by function and position.
func (a *Analysis) Events() []*Event {
	var out []*Event
	for _, e := range a.events {
		out = append(out, e)
	}
	sort.Slice(out, func(i, j int) bool {
		fi, fj := core.FuncName(out[i].Fn), core.FuncName(out[j].Fn)
		if fi != fj {
			return fi < fj
		}
		if out[i].Instr.Pos() != out[j].Instr.Pos() {
			return out[i].Instr.Pos() < out[j].Instr.Pos()
		}
		return out[i].Desc < out[j].Desc
	})
	return out
}

// Content exposes the content map for diagnostics.
func (a *Analysis) Content() map[string]Class { return a.content }
func (a *Analysis) ContentWhy(k string) string { return a.contentWhy[k] }
