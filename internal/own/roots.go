package own

import (
	"go/types"
	"sort"
	"strings"

	"golang.org/x/tools/go/ssa"

	"verif/internal/core"
)

// Mutators are the methods the repository documents as not safe for concurrent use; they are
// configuration calls, not search/enumeration/replace methods, and are not search roots.
var Mutators = map[string]bool{
	"Longest": true, "SetLongest": true, "ResetStats": true, "UnmarshalText": true,
}

// SearchRootMethods lists exported pointer-receiver methods of coregex.Regex and meta.Engine
// other than the documented mutators.
func SearchRootMethods(p *core.Prog) []*ssa.Function {
	var out []*ssa.Function
	for _, tn := range [][2]string{{"", "Regex"}, {"meta", "Engine"}} {
		named := p.LookupType(tn[0], tn[1])
		if named == nil {
			continue
		}
		ms := p.SSA.MethodSets.MethodSet(types.NewPointer(named))
		for i := 0; i < ms.Len(); i++ {
			sel := ms.At(i)
			f := sel.Obj().(*types.Func)
			if !f.Exported() || Mutators[f.Name()] {
				continue
			}
			if fn := p.SSA.MethodValue(sel); fn != nil && fn.Blocks != nil {
				out = append(out, fn)
			}
		}
	}
	sort.Slice(out, func(i, j int) bool { return out[i].String() < out[j].String() })
	return out
}

// PoolNewClosures finds functions stored into the New field of a sync.Pool anywhere in the module.
func PoolNewClosures(p *core.Prog) []*ssa.Function {
	var out []*ssa.Function
	seen := map[*ssa.Function]bool{}
	for _, fn := range p.SrcFuncs() {
		for _, b := range fn.Blocks {
			for _, in := range b.Instrs {
				st, ok := in.(*ssa.Store)
				if !ok {
					continue
				}
				fa, ok := st.Addr.(*ssa.FieldAddr)
				if !ok {
					continue
				}
				pt, ok := fa.X.Type().Underlying().(*types.Pointer)
				if !ok {
					continue
				}
				n, ok := pt.Elem().(*types.Named)
				if !ok || n.Obj().Pkg() == nil || n.Obj().Pkg().Path() != "sync" || n.Obj().Name() != "Pool" {
					continue
				}
				if fieldName(fa) != "New" {
					continue
				}
				var f *ssa.Function
				switch v := st.Val.(type) {
				case *ssa.MakeClosure:
					f = v.Fn.(*ssa.Function)
				case *ssa.Function:
					f = v
				}
				if f != nil && !seen[f] {
					seen[f] = true
					out = append(out, f)
				}
			}
		}
	}
	sort.Slice(out, func(i, j int) bool { return out[i].String() < out[j].String() })
	return out
}

// rootParamVal classifies a parameter of a search root.
func rootParamVal(i int, p *ssa.Parameter, isRecv bool) Val {
	if isRecv {
		return Val{C: SHARED, Path: p.Name()}
	}
	t := p.Type()
	switch u := t.Underlying().(type) {
	case *types.Signature, *types.Interface:
		return Val{C: FRESH, Opaque: true, Path: p.Name()}
	case *types.Basic:
		if u.Kind() == types.String {
			return Val{C: INPUT, Path: p.Name()}
		}
		return Val{}
	case *types.Slice:
		if b, ok := u.Elem().Underlying().(*types.Basic); ok && b.Kind() == types.Byte {
			if p.Name() == "dst" {
				return Val{C: OUT, Path: p.Name()}
			}
			return Val{C: INPUT, Path: p.Name()}
		}
		// other slices handed in by the caller are result buffers (AppendAllIndex dst, streaming results, match []int)
		if p.Name() == "match" {
			return Val{C: INPUT, Path: p.Name()}
		}
		return Val{C: OUT, Path: p.Name()}
	}
	if isPtrLike(t) {
		return Val{C: INPUT, Path: p.Name()}
	}
	return Val{}
}

// SetupSearchRoots installs the search roots, their closures and the pool constructors.
func (a *Analysis) SetupSearchRoots() {
	methods := SearchRootMethods(a.P)
	var rootFns []*ssa.Function
	for _, fn := range methods {
		r := &Root{Fn: fn, Why: "exported search method"}
		for i, p := range fn.Params {
			r.Params = append(r.Params, rootParamVal(i, p, i == 0))
		}
		a.Roots = append(a.Roots, r)
		rootFns = append(rootFns, fn)
	}
	// closures (iterators) returned by roots run at search time, called by user code
	var addAnon func(fn *ssa.Function)
	addAnon = func(fn *ssa.Function) {
		for _, an := range fn.AnonFuncs {
			r := &Root{Fn: an, Why: "closure of " + core.FuncName(fn)}
			for i, p := range an.Params {
				r.Params = append(r.Params, rootParamVal(i, p, false))
			}
			a.Roots = append(a.Roots, r)
			rootFns = append(rootFns, an)
			addAnon(an)
		}
	}
	for _, fn := range methods {
		addAnon(fn)
	}
	for _, fn := range PoolNewClosures(a.P) {
		r := &Root{Fn: fn, Why: "sync.Pool.New constructor (runs inside Pool.Get at search time)"}
		fvs := make([]Val, len(fn.FreeVars))
		for i, fv := range fn.FreeVars {
			fvs[i] = Val{C: SHARED, Attrib: true, Path: fv.Name()}
		}
		a.freeVars[fn] = fvs
		a.Roots = append(a.Roots, r)
		rootFns = append(rootFns, fn)
	}
	a.ComputeContainers(rootFns)
}

// RootNames for evidence.
func (a *Analysis) RootNames() []string {
	var out []string
	for _, r := range a.Roots {
		out = append(out, core.FuncName(r.Fn))
	}
	return out
}

// ContainerNames for evidence.
func (a *Analysis) ContainerNames() (containers, perSearch []string) {
	for n := range a.Containers {
		if a.P.InModule(n.Obj().Pkg()) {
			containers = append(containers, core.TypeName(n))
		}
	}
	for n := range a.PerSearch {
		if n.Obj().Pkg() != nil && (a.P.InModule(n.Obj().Pkg()) || strings.HasPrefix(n.Obj().Pkg().Path(), "github.com/coregx/")) {
			perSearch = append(perSearch, core.TypeName(n))
		}
	}
	sort.Strings(containers)
	sort.Strings(perSearch)
	return
}

// RootRets returns, for each root, the classes of its results under the root context (after Run).
func (a *Analysis) RootRets() map[*ssa.Function][]Val {
	out := map[*ssa.Function][]Val{}
	for _, r := range a.Roots {
		if s := a.summaries[ctxKey{r.Fn, ctxSig(r.Params)}]; s != nil {
			out[r.Fn] = s.Rets
		}
	}
	return out
}
