package own

import (
	"fmt"
	"go/types"
	"sort"
	"strings"

	"golang.org/x/tools/go/ssa"

	"verif/internal/core"
)

// stdlib effect table. writes: argument indices (receiver = 0 for methods) whose memory is written.
// ret: -1 fresh, -2 join of all args, k>=0 inherits argument k.
type stdEffect struct {
	writes []int
	ret    int
	exempt bool // synchronisation primitive: no event at all
	state  bool // result is exclusively owned per-search state
}

var stdTable = map[string]stdEffect{
	// synchronisation (exempt by the Go memory model)
	"(*sync.Pool).Get":  {ret: -1, exempt: true, state: true},
	"(*sync.Pool).Put":  {ret: -1, exempt: true},
	"(*sync.Mutex).Lock":   {ret: -1, exempt: true},
	"(*sync.Mutex).Unlock": {ret: -1, exempt: true},
	"(*sync.RWMutex).Lock":   {ret: -1, exempt: true},
	"(*sync.RWMutex).Unlock": {ret: -1, exempt: true},
	"(*sync.RWMutex).RLock":   {ret: -1, exempt: true},
	"(*sync.RWMutex).RUnlock": {ret: -1, exempt: true},
	"(*sync.Once).Do":         {ret: -1, exempt: true},
	// pure readers
	"bytes.IndexByte": {ret: -1}, "bytes.Index": {ret: -1}, "bytes.Equal": {ret: -1}, "bytes.HasPrefix": {ret: -1},
	"bytes.HasSuffix": {ret: -1}, "bytes.LastIndex": {ret: -1}, "bytes.LastIndexByte": {ret: -1}, "bytes.IndexAny": {ret: -1},
	"bytes.Compare": {ret: -1}, "bytes.Contains": {ret: -1}, "bytes.IndexRune": {ret: -1}, "bytes.Count": {ret: -1},
	"bytes.ContainsAny": {ret: -1}, "bytes.EqualFold": {ret: -1},
	"strings.IndexByte": {ret: -1}, "strings.Index": {ret: -1}, "strings.HasPrefix": {ret: -1}, "strings.HasSuffix": {ret: -1},
	"strings.Contains": {ret: -1}, "strings.ContainsRune": {ret: -1}, "strings.IndexRune": {ret: -1}, "strings.EqualFold": {ret: -1},
	"strings.ToLower": {ret: -1}, "strings.ToUpper": {ret: -1}, "strings.Repeat": {ret: -1}, "strings.IndexAny": {ret: -1},
	"strings.ContainsAny": {ret: -1}, "strings.Count": {ret: -1}, "strings.LastIndex": {ret: -1}, "strings.Compare": {ret: -1},
	"strings.TrimPrefix": {ret: 0}, "strings.TrimSuffix": {ret: 0}, "strings.TrimSpace": {ret: 0}, "strings.Clone": {ret: -1},
	"strings.Join": {ret: -1}, "strings.Split": {ret: 0}, "strings.Fields": {ret: 0},
	"unicode/utf8.DecodeRune": {ret: -1}, "unicode/utf8.DecodeRuneInString": {ret: -1}, "unicode/utf8.DecodeLastRune": {ret: -1},
	"unicode/utf8.DecodeLastRuneInString": {ret: -1}, "unicode/utf8.RuneLen": {ret: -1}, "unicode/utf8.RuneCount": {ret: -1},
	"unicode/utf8.RuneCountInString": {ret: -1}, "unicode/utf8.ValidRune": {ret: -1}, "unicode/utf8.Valid": {ret: -1},
	"unicode/utf8.ValidString": {ret: -1}, "unicode/utf8.FullRune": {ret: -1}, "unicode/utf8.RuneStart": {ret: -1},
	"unicode/utf8.EncodeRune": {writes: []int{0}, ret: -1}, "unicode/utf8.AppendRune": {writes: []int{0}, ret: 0},
	"unicode.IsLetter": {ret: -1}, "unicode.IsDigit": {ret: -1}, "unicode.IsUpper": {ret: -1}, "unicode.IsLower": {ret: -1},
	"unicode.ToLower": {ret: -1}, "unicode.ToUpper": {ret: -1}, "unicode.SimpleFold": {ret: -1}, "unicode.IsSpace": {ret: -1},
	"unicode.Is": {ret: -1}, "unicode.In": {ret: -1},
	"math/bits.TrailingZeros64": {ret: -1}, "math/bits.TrailingZeros32": {ret: -1}, "math/bits.TrailingZeros16": {ret: -1},
	"math/bits.TrailingZeros": {ret: -1}, "math/bits.OnesCount64": {ret: -1}, "math/bits.LeadingZeros64": {ret: -1},
	"math/bits.Len64": {ret: -1}, "math/bits.Len": {ret: -1}, "math/bits.OnesCount": {ret: -1}, "math/bits.Len32": {ret: -1},
	"math/bits.LeadingZeros32": {ret: -1}, "math/bits.OnesCount32": {ret: -1}, "math/bits.TrailingZeros8": {ret: -1},
	"math/bits.OnesCount8": {ret: -1}, "math/bits.OnesCount16": {ret: -1}, "math/bits.Len8": {ret: -1}, "math/bits.Len16": {ret: -1},
	"math/bits.LeadingZeros": {ret: -1}, "math/bits.ReverseBytes64": {ret: -1},
	"errors.New": {ret: -1}, "errors.Is": {ret: -1}, "errors.As": {writes: []int{1}, ret: -1}, "fmt.Sprintf": {ret: -1}, "fmt.Errorf": {ret: -1},
	"fmt.Sprint": {ret: -1},
	"strconv.Itoa": {ret: -1}, "strconv.Quote": {ret: -1}, "strconv.Atoi": {ret: -1}, "strconv.FormatInt": {ret: -1},
	"encoding/binary.littleEndian.Uint64": {ret: -1}, "encoding/binary.littleEndian.Uint32": {ret: -1},
	"encoding/binary.littleEndian.Uint16": {ret: -1},
	"(encoding/binary.littleEndian).Uint64": {ret: -1}, "(encoding/binary.littleEndian).Uint32": {ret: -1},
	"(encoding/binary.littleEndian).Uint16": {ret: -1},
	"regexp/syntax.Parse":             {ret: -1},
	"(*regexp/syntax.Regexp).String":   {ret: -1},
	"(*regexp/syntax.Regexp).Simplify": {ret: -1},
	"(*regexp/syntax.Regexp).MaxCap":   {ret: -1},
	"(*regexp/syntax.Regexp).CapNames": {ret: -1},
	"(*regexp/syntax.Error).Error":     {ret: -1},
	"(regexp/syntax.ErrorCode).String": {ret: -1},
	// writers
	"sort.Slice": {writes: []int{0}, ret: -1}, "sort.Ints": {writes: []int{0}, ret: -1}, "sort.Strings": {writes: []int{0}, ret: -1},
	"sort.SliceStable": {writes: []int{0}, ret: -1}, "sort.Sort": {writes: []int{0}, ret: -1},
	"slices.Sort[...]": {writes: []int{0}, ret: -1}, "slices.SortFunc[...]": {writes: []int{0}, ret: -1},
	"(*strings.Builder).WriteString": {writes: []int{0}, ret: -1}, "(*strings.Builder).WriteByte": {writes: []int{0}, ret: -1},
	"(*strings.Builder).Write": {writes: []int{0}, ret: -1}, "(*strings.Builder).WriteRune": {writes: []int{0}, ret: -1},
	"(*strings.Builder).Grow": {writes: []int{0}, ret: -1}, "(*strings.Builder).String": {ret: 0}, "(*strings.Builder).Len": {ret: -1},
	"(*strings.Builder).Reset": {writes: []int{0}, ret: -1},
	"(*bytes.Buffer).Write": {writes: []int{0}, ret: -1}, "(*bytes.Buffer).WriteString": {writes: []int{0}, ret: -1},
	"(*bytes.Buffer).WriteByte": {writes: []int{0}, ret: -1}, "(*bytes.Buffer).Bytes": {ret: 0}, "(*bytes.Buffer).String": {ret: -1},
	"(*bytes.Buffer).Len": {ret: -1}, "(*bytes.Buffer).Grow": {writes: []int{0}, ret: -1}, "(*bytes.Buffer).Reset": {writes: []int{0}, ret: -1},
	"(*bytes.Buffer).WriteRune": {writes: []int{0}, ret: -1},
}

func stdName(fn *ssa.Function) string {
	s := fn.String()
	if o := fn.Origin(); o != nil && o != fn {
		s = o.String() + "[...]"
	}
	return s
}

func isAtomic(fn *ssa.Function) bool {
	pk := fnPkg(fn)
	return pk != nil && (pk.Path() == "sync/atomic" || pk.Path() == "internal/runtime/atomic")
}

// calleesOf resolves the callees of a call site.
func (fr *frame) calleesOf(in ssa.Instruction, cc *ssa.CallCommon) []*ssa.Function {
	if f := cc.StaticCallee(); f != nil {
		return []*ssa.Function{f}
	}
	var out []*ssa.Function
	if n := fr.a.CG.Nodes[fr.fn]; n != nil {
		for _, e := range n.Out {
			if e.Site != nil && e.Site == in.(ssa.CallInstruction) {
				out = append(out, e.Callee.Func)
			}
		}
	}
	sort.Slice(out, func(i, j int) bool { return out[i].String() < out[j].String() })
	return out
}

func (fr *frame) call(in ssa.Instruction, cc *ssa.CallCommon) {
	var resVal ssa.Value
	if c, ok := in.(*ssa.Call); ok {
		resVal = c
	}
	// builtins
	if b, ok := cc.Value.(*ssa.Builtin); ok {
		fr.builtin(in, b, cc, resVal)
		return
	}
	// argument values, receiver first for invoke
	var args []Val
	var argVals []ssa.Value
	if cc.IsInvoke() {
		args = append(args, fr.get(cc.Value))
		argVals = append(argVals, cc.Value)
	}
	for _, a := range cc.Args {
		args = append(args, fr.get(a))
		argVals = append(argVals, a)
	}
	// opaque callee (user callback / user interface value): the user's code is outside the analysis
	opaque := false
	if !cc.IsInvoke() {
		opaque = fr.get(cc.Value).Opaque
	} else if len(args) > 0 {
		opaque = args[0].Opaque
	}
	callees := fr.calleesOf(in, cc)
	if opaque && len(callees) == 0 {
		fr.setResult(resVal, []Val{{C: FRESH, Path: "user-callback-result"}})
		return
	}
	if len(callees) == 0 {
		// closure value called directly: callee may be a MakeClosure in this frame
		if mc, ok := cc.Value.(*ssa.MakeClosure); ok {
			callees = []*ssa.Function{mc.Fn.(*ssa.Function)}
		}
	}
	if len(callees) == 0 {
		// unresolved dynamic call
		worst := FRESH
		for i, a := range args {
			if isPtrLike(argVals[i].Type()) && a.C > worst {
				worst = a.C
			}
		}
		if worst >= INPUT {
			fr.event(in, "unknown-call", "dynamic call "+core.TypeName(cc.Value.Type()), worst, "UNDECIDED", "call through a function value/interface with no resolved callee receives "+worst.String()+"-class memory", "")
		}
		var r Val
		for _, a := range args {
			r = join(r, a)
		}
		fr.setResult(resVal, []Val{r})
		return
	}
	var rets []Val
	for _, callee := range callees {
		cr := fr.callOne(in, cc, callee, args, argVals)
		for len(rets) < len(cr) {
			rets = append(rets, Val{})
		}
		for i := range cr {
			rets[i] = join(rets[i], cr[i])
		}
	}
	fr.setResult(resVal, rets)
}

func (fr *frame) setResult(res ssa.Value, rets []Val) {
	if res == nil {
		return
	}
	if _, isTuple := res.Type().(*types.Tuple); isTuple {
		old := fr.tuples[res]
		for len(old) < len(rets) {
			old = append(old, Val{})
		}
		var all Val
		for i := range rets {
			j := join(old[i], rets[i])
			if !eqVal(j, old[i]) {
				fr.dirty = true
			}
			old[i] = j
			all = join(all, j)
		}
		fr.tuples[res] = old
		fr.set(res, all)
		return
	}
	if len(rets) > 0 {
		fr.set(res, rets[0])
	}
}

func (fr *frame) callOne(in ssa.Instruction, cc *ssa.CallCommon, callee *ssa.Function, args []Val, argVals []ssa.Value) []Val {
	a := fr.a
	nres := callee.Signature.Results().Len()
	fresh := func() []Val {
		r := make([]Val, nres)
		for i := range r {
			r[i] = Val{C: FRESH, Path: "ret(" + callee.Name() + ")"}
		}
		return r
	}
	if isAtomic(callee) {
		// atomic.Pointer[T].Swap(nil) hands over exclusive ownership; Load inherits the receiver's class.
		name := callee.Name()
		a.StdlibSeen[stdName(callee)] = "sync/atomic: synchronised, exempt"
		switch name {
		case "Swap":
			r := fresh()
			if len(r) > 0 {
				if len(argVals) >= 2 {
					if c, ok := argVals[1].(*ssa.Const); ok && c.IsNil() {
						r[0] = Val{C: STATE, Path: "atomic-swap(nil)"}
						return r
					}
				}
				r[0] = args[0]
			}
			return r
		case "Load":
			r := fresh()
			if len(r) > 0 && isPtrLike(callee.Signature.Results().At(0).Type()) {
				r[0] = args[0]
			}
			return r
		}
		return fresh()
	}
	if IsCompileRoot(callee) {
		// the compile pipeline builds a new compiled object from a pattern string; it is not a search path
		a.CompileCuts[core.FuncName(callee)] = true
		return fresh()
	}
	if !a.inScope(callee) {
		return fr.stdlibCall(in, callee, args, argVals, nres)
	}
	if callee.Blocks == nil {
		// assembly / external
		name := core.FuncName(callee)
		w, ok := a.AsmWrites[name]
		if !ok {
			fr.event(in, "asm", "call "+name, SHARED, "UNDECIDED", "bodiless function without an assembly summary", "")
			return fresh()
		}
		for _, i := range w {
			if i < len(args) {
				fr.write(in, "asm", fmt.Sprintf("call %s arg%d", name, i), args[i], name+" (assembly store)")
			}
		}
		return fresh()
	}
	// synthetic wrappers (bound methods, thunks) are analysed like ordinary functions
	cargs := make([]Val, len(callee.Params))
	for i := range cargs {
		if i < len(args) {
			cargs[i] = Val{C: args[i].C, Opaque: args[i].Opaque}
			if !isPtrLike(callee.Params[i].Type()) {
				cargs[i] = Val{Opaque: args[i].Opaque}
			}
		}
	}
	// closures invoked in this frame: make sure free variable classes include this creation site
	sum := a.analyse(callee, cargs, fr.chain)
	// writes through parameters
	if sum.WritesParam != 0 {
		for i := 0; i < len(callee.Params) && i < len(args); i++ {
			if sum.WritesParam&(1<<uint(i)) == 0 {
				continue
			}
			if args[i].C != SHARED {
				continue
			}
			desc := fmt.Sprintf("call %s writes arg%d=%s", core.FuncName(callee), i, args[i].Path)
			fr.write(in, "call", desc, args[i], sum.DeepWrite[i])
		}
	}
	rets := make([]Val, len(sum.Rets))
	for i, r := range sum.Rets {
		nv := Val{C: r.C, Opaque: r.Opaque, Path: "ret(" + callee.Name() + ")"}
		if r.C == SHARED || r.C == INPUT {
			nv.Attrib = r.Attrib
			for j := 0; j < len(args) && j < 64; j++ {
				if r.Params&(1<<uint(j)) != 0 {
					nv.Attrib = nv.Attrib || args[j].Attrib
					nv.Params |= args[j].Params
					if nv.Path == "" || strings.HasPrefix(nv.Path, "ret(") {
						nv.Path = args[j].Path + "→" + callee.Name() + "()"
					}
				}
			}
			if r.C == SHARED && !nv.Attrib && nv.Params == 0 {
				nv.Attrib = true
			}
		}
		rets[i] = nv
	}
	for len(rets) < nres {
		rets = append(rets, Val{})
	}
	return rets
}

func (fr *frame) stdlibCall(in ssa.Instruction, callee *ssa.Function, args []Val, argVals []ssa.Value, nres int) []Val {
	a := fr.a
	name := stdName(callee)
	eff, ok := stdTable[name]
	mk := func(v Val) []Val {
		r := make([]Val, nres)
		for i := range r {
			r[i] = v
		}
		return r
	}
	if ok {
		if eff.exempt {
			a.StdlibSeen[name] = "synchronisation primitive, exempt"
		} else if len(eff.writes) > 0 {
			a.StdlibSeen[name] = fmt.Sprintf("known writer of arg %v", eff.writes)
		} else {
			a.StdlibSeen[name] = "known read-only"
		}
		for _, i := range eff.writes {
			if i < len(args) {
				fr.write(in, "stdlib-writer", fmt.Sprintf("call %s arg%d", name, i), args[i], name)
			}
		}
		switch {
		case eff.state:
			return mk(Val{C: STATE, Path: "pool.Get()"})
		case eff.ret == -1:
			return mk(Val{C: FRESH, Path: "ret(" + name + ")"})
		case eff.ret == -2:
			var r Val
			for _, x := range args {
				r = join(r, x)
			}
			return mk(r)
		default:
			if eff.ret < len(args) {
				return mk(args[eff.ret])
			}
		}
		return mk(Val{})
	}
	// unknown stdlib function: undecided if it receives shared or input memory it could write
	worst := FRESH
	var r Val
	for i, x := range args {
		if i < len(argVals) && isWritablePtr(argVals[i].Type()) && x.C > worst {
			worst = x.C
		}
		r = join(r, x)
	}
	if worst >= INPUT {
		a.StdlibSeen[name] = "UNKNOWN: receives " + worst.String() + " memory"
		fr.event(in, "unknown-call", "call "+name, worst, "UNDECIDED", "standard-library function not in the effect table receives "+worst.String()+"-class writable memory", "")
	} else if _, seen := a.StdlibSeen[name]; !seen {
		a.StdlibSeen[name] = "not in table; receives only fresh/state/scalar arguments"
	}
	return mk(r)
}

// isWritablePtr: could a callee write through a value of this type? (strings are immutable)
func isWritablePtr(t types.Type) bool {
	switch u := t.Underlying().(type) {
	case *types.Pointer, *types.Slice, *types.Map, *types.Chan, *types.Interface, *types.Signature:
		return true
	case *types.Basic:
		return u.Kind() == types.UnsafePointer
	case *types.Struct:
		for i := 0; i < u.NumFields(); i++ {
			if isWritablePtr(u.Field(i).Type()) {
				return true
			}
		}
	case *types.Array:
		return isWritablePtr(u.Elem())
	}
	return false
}

func (fr *frame) builtin(in ssa.Instruction, b *ssa.Builtin, cc *ssa.CallCommon, res ssa.Value) {
	arg := func(i int) Val {
		if i < len(cc.Args) {
			return fr.get(cc.Args[i])
		}
		return Val{}
	}
	switch b.Name() {
	case "append":
		s := arg(0)
		// append writes into the backing array of its first operand when capacity allows
		if _, isNilConst := cc.Args[0].(*ssa.Const); !isNilConst {
			fr.write(in, "append", "append to "+storeDesc(cc.Args[0]), s, "")
		}
		if len(cc.Args) > 1 {
			e := arg(1)
			if sl, ok := cc.Args[0].Type().Underlying().(*types.Slice); ok && isPtrLike(sl.Elem()) && s.C <= OUT {
				fr.addContent("elem:"+core.TypeName(sl.Elem()), e.C, core.FuncName(fr.fn)+": append")
			}
		}
		r := s
		r.Key = ""
		if res != nil {
			fr.set(res, r)
		}
	case "copy":
		fr.write(in, "copy", "copy into "+storeDesc(cc.Args[0]), arg(0), "")
		if sl, ok := cc.Args[0].Type().Underlying().(*types.Slice); ok && isPtrLike(sl.Elem()) && arg(0).C <= OUT {
			fr.addContent("elem:"+core.TypeName(sl.Elem()), arg(1).C, core.FuncName(fr.fn)+": copy")
		}
	case "delete":
		fr.write(in, "mapupdate", "delete from map", arg(0), "")
	case "clear":
		fr.write(in, "store", "clear "+storeDesc(cc.Args[0]), arg(0), "")
	case "len", "cap", "min", "max", "print", "println", "panic", "recover", "real", "imag", "complex", "close":
	default:
		// ssa:wrapnilchk, unsafe.Slice/String/StringData/SliceData/Add: inherit
		var r Val
		for i := range cc.Args {
			r = join(r, arg(i))
		}
		r.Key = ""
		if res != nil {
			fr.set(res, r)
		}
	}
}
