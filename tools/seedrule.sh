#!/bin/bash
# dev helper: run one rule against a scratch copy of /repo with one stored seed applied. usage: seedrule.sh <seed> <rule> [patchfile]
S=$1; R=$2; D=/tmp/sr.$$
rm -rf $D; cp -r /repo $D
pf=${3:-/verif/seeded/$S/patch.diff}
git -C $D apply $pf || { echo "PATCH-DOES-NOT-APPLY"; rm -rf $D; exit 1; }
VSTATIC_REPO=$D /verif/bin/vstatic rule $R 2>&1 | grep -vE '^note:' | cut -c1-400
rm -rf $D
