#!/bin/bash
# dev helper: take change<k>.diff/demo<k>_test.go/notes<k>.md from a seeding agent's output dir, verify with seedcheck.sh,
# and store it as /verif/seeded/<name>/ with the verification log.
# usage: seedintake.sh <outdir> <k> <name> [race]
set -u
OUT=$1; K=$2; NAME=$3; RACE=${4:-}
D=/verif/seeded/$NAME
mkdir -p $D
cp $OUT/change$K.diff $D/patch.diff
cp $OUT/demo${K}_test.go $D/demo_test.go
cp $OUT/notes$K.md $D/notes.md 2>/dev/null
/verif/tools/seedcheck.sh $D/patch.diff $D/demo_test.go $RACE > $D/verify.log 2>&1
cat $D/verify.log
