#!/usr/bin/env python3
"""dev helper: summarise seeded/*/meta.json (what tools/seedmeta.py recorded) as the tables of DESIGN.md section 8."""
import json, os, re, collections
S = '/verif/seeded'
seeds = {}
for d in sorted(os.listdir(S)):
    mp = os.path.join(S, d, 'meta.json')
    if re.match(r'^C\d\d-\d+$', d) and os.path.exists(mp):
        seeds[d] = json.load(open(mp))
rounds = collections.defaultdict(lambda: [0, 0, 0, 0])  # n, first-contact known, first-contact fired, final fired
for s, m in seeds.items():
    r = m.get('round')
    rounds[r][0] += 1
    if 'detected_at_first_contact' in m:
        rounds[r][1] += 1
        rounds[r][2] += 1 if m['detected_at_first_contact'] else 0
    rounds[r][3] += 1 if m.get('detected') else 0
print('total', len(seeds), 'detected', sum(1 for m in seeds.values() if m.get('detected')))
print('| round | seeds | fired at first contact | fired on the final rule set |')
for r in sorted(rounds, key=lambda x: (x is None, x)):
    n, k, f, fin = rounds[r]
    print('| %s | %d | %s | %d |' % (r, n, f if k else '-', fin))
byrule = collections.defaultdict(list)
for s, m in seeds.items():
    if m.get('detected'):
        rules = [x for x in m.get('detected_by_rules', [])]
        byrule[' + '.join(sorted(rules))].append(s)
print()
print('| rule(s) that fire | n | seeds |')
for k in sorted(byrule, key=lambda k: (-len(byrule[k]), k)):
    print('| %s | %d | %s |' % (k, len(byrule[k]), ', '.join(byrule[k])))
print()
print('missed:', ' '.join(s for s, m in seeds.items() if not m.get('detected')))
stale = [s for s, m in seeds.items() if m.get('demonstration_stale') or 'superseded' in json.dumps(m)]
print('stale/superseded:', ' '.join(stale))
bad = [s for s, m in seeds.items() if m.get('verified', {}).get('result', '').find('demo-without=ok build=ok suite-fail-lines=0 demo-with=FAIL') < 0]
print('verification not clean:', ' '.join(bad))
