#!/bin/bash
# dev helper: rebuild vstatic, regenerate MANIFEST.json, run every quick check against /repo, validate schemas.
cd /verif
export GOFLAGS=-mod=mod GOPROXY=off GOSUMDB=off GOTOOLCHAIN=local PATH=/opt/veriftools/go1.26.8/bin:$PATH
go build -o bin/vstatic ./cmd/vstatic || exit 1
./bin/vstatic manifest > /dev/null || exit 1
out=$(./bin/vstatic check-all 2>&1); rc=$?
echo "$out" | grep -E '^FIRED|VIOLATED|UNDECIDED|VIOLATION|fatal' | head -20
echo "check-all exit=$rc"
./tools_validate.sh | grep -v '^ok' 
git -C /repo status --short | head -3
[ $rc -eq 0 ] || { echo "PRECOMMIT FAILED: check-all exit=$rc"; exit 1; }
