#!/bin/bash
# dev helper: run every claimed check against every stored seed (scratch copy of /repo + patch) and print which checks fire.
# usage: seedmatrix.sh [seed-dir ...]   (default: all of /verif/seeded)
cd /verif
seeds=${@:-$(ls seeded)}
props=$(python3 -c "import json;print(' '.join(c['property_id'] for c in json.load(open('/verif/MANIFEST.json'))['checks']))")
for s in $seeds; do
  s=$(basename $s)
  rm -rf /tmp/sm && mkdir -p /tmp/sm && cp -r /repo /tmp/sm/repo
  if ! git -C /tmp/sm/repo apply /verif/seeded/$s/patch.diff 2>/dev/null; then echo "$s PATCH-DOES-NOT-APPLY"; continue; fi
  fired=""; rules=""
  for p in $props; do
    out=$(VSTATIC_REPO=/tmp/sm/repo VSTATIC_EVIDENCE_DIR=/tmp/sm/ev ./bin/vstatic check -property $p -tier quick 2>&1); rc=$?
    if [ $rc -ne 0 ]; then fired="$fired $p"; rules="$rules $(echo "$out" | grep -oE '^(VIOLATED|UNDECIDED) rule=[A-Z-]+' | sed 's/.*rule=//' | sort -u | tr '\n' ',')"; fi
  done
  rules=$(echo $rules | tr ' ' '\n' | tr ',' '\n' | sort -u | grep . | tr '\n' ' ')
  echo "$s fired:[${fired# }] rules:[${rules% }]"
done
rm -rf /tmp/sm
