#!/bin/bash
# dev helper: run every claimed check against every stored seed (scratch copy of /repo + patch) and print which checks fire.
# usage: seedmatrix.sh [seed-dir ...]   (default: all of /verif/seeded). Evidence goes to a scratch dir, never to /verif/evidence.
# env: SM (scratch dir, default /tmp/sm), VSTATIC_BIN (default ./bin/vstatic), VSTATIC_VERIF (rule set's own known_findings.txt),
#      REPO_REV (check the scratch copy out at this commit first: first-contact runs against the tree the seeds were made on),
#      PATCH (file name inside the seed dir, default patch.diff)
cd /verif
SM=${SM:-/tmp/sm}; BIN=${VSTATIC_BIN:-./bin/vstatic}; PATCH=${PATCH:-patch.diff}
seeds=${@:-$(ls seeded | grep '^C')}
for s in $seeds; do
  s=$(basename $s)
  rm -rf $SM && mkdir -p $SM && cp -r /repo $SM/repo
  if [ -n "${REPO_REV:-}" ]; then git -C $SM/repo checkout -q -f $REPO_REV || { echo "$s CHECKOUT-FAILED"; continue; }; fi
  pf=/verif/seeded/$s/$PATCH; [ -f $pf ] || pf=/verif/seeded/$s/patch.diff
  if ! git -C $SM/repo apply $pf 2>/dev/null; then echo "$s PATCH-DOES-NOT-APPLY"; continue; fi
  out=$(VSTATIC_REPO=$SM/repo VSTATIC_EVIDENCE_DIR=$SM/ev $BIN check-all 2>&1)
  fired=$(echo "$out" | grep '^FIRED' | awk '{print $2}' | tr '\n' ' ')
  rules=$(echo "$out" | grep -oE '(VIOLATED|UNDECIDED) rule=[A-Z-]+' | sed 's/.*rule=//' | sort -u | tr '\n' ' ')
  keys=$(echo "$out" | grep -oE 'key=.*' | sort -u | head -4 | tr '\n' ';')
  echo "$s fired:[${fired% }] rules:[${rules% }] $keys"
done
rm -rf $SM
