#!/bin/bash
# dev helper: run every claimed check against every stored seed (scratch copy of /repo + patch) and print which checks fire.
# usage: seedmatrix.sh [seed-dir ...]   (default: all of /verif/seeded). Evidence goes to a scratch dir, never to /verif/evidence.
cd /verif
seeds=${@:-$(ls seeded)}
for s in $seeds; do
  s=$(basename $s)
  rm -rf /tmp/sm && mkdir -p /tmp/sm && cp -r /repo /tmp/sm/repo
  if ! git -C /tmp/sm/repo apply /verif/seeded/$s/patch.diff 2>/dev/null; then echo "$s PATCH-DOES-NOT-APPLY"; continue; fi
  out=$(VSTATIC_REPO=/tmp/sm/repo VSTATIC_EVIDENCE_DIR=/tmp/sm/ev ./bin/vstatic check-all 2>&1)
  fired=$(echo "$out" | grep '^FIRED' | awk '{print $2}' | tr '\n' ' ')
  rules=$(echo "$out" | grep -oE '(VIOLATED|UNDECIDED) rule=[A-Z-]+' | sed 's/.*rule=//' | sort -u | tr '\n' ' ')
  keys=$(echo "$out" | grep -oE 'key=.*' | sort -u | head -4 | tr '\n' ';')
  echo "$s fired:[${fired% }] rules:[${rules% }] $keys"
done
rm -rf /tmp/sm
