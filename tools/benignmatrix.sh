#!/bin/bash
# dev helper (never registered): apply each behaviour-preserving refactoring of seeded/_benign to a scratch copy of
# /repo and run every check; each line must read fired:[] - anything else is a false alarm of the machinery.
# usage: benignmatrix.sh [patch...]        env: SM scratch dir (default /tmp/smb), VSTATIC_BIN
set -u
SM=${SM:-/tmp/smb}
BIN=${VSTATIC_BIN:-/verif/bin/vstatic}
[ $# -eq 0 ] && set -- /verif/seeded/_benign/*.diff
for pf in "$@"; do
  pf=$(realpath $pf)
  name=$(basename $pf .diff)
  rm -rf $SM && mkdir -p $SM && cp -r ${REPO_SRC:-/repo} $SM/repo
  if ! git -C $SM/repo apply $pf 2>/dev/null; then echo "$name PATCH-DOES-NOT-APPLY"; continue; fi
  (cd $SM/repo && GOFLAGS=-mod=mod GOPROXY=off go build ./... 2>&1 | head -1)
  out=$(cd /verif && VSTATIC_REPO=$SM/repo VSTATIC_EVIDENCE_DIR=$SM/ev $BIN check-all 2>&1)
  fired=$(echo "$out" | grep '^FIRED' | awk '{print $2}' | tr '\n' ' ')
  rules=$(echo "$out" | grep -oE '(VIOLATED|UNDECIDED) rule=[A-Z-]+' | sed 's/.*rule=//' | sort -u | tr '\n' ' ')
  keys=$(echo "$out" | grep -oE 'key=.*' | sort -u | head -4 | tr '\n' ';')
  echo "$name fired:[${fired% }] rules:[${rules% }] $keys"
  rm -rf $SM
done
