#!/usr/bin/env python3
"""dev helper: write / refresh seeded/<id>/meta.json from the records of what was actually run.

usage: seedmeta.py <matrix-file> [--verify <log> <repo-commit>]... [--first <round> <first-contact-matrix>]

 * <matrix-file>: output of tools/seedmatrix.sh over the seeds (which checks / rules fire on each seed now)
 * --verify: output of tools/seedverify.sh together with the /repo commit it ran against (later logs win)
 * --first: the matrix recorded when a round's seeds first met the checks (before any rule was touched)
A seed without meta.json gets one from its notes.md (section "needs to manifest") with the given round.
Nothing here is used by a registered check.
"""
import json, os, re, sys

SEEDED = '/verif/seeded'


def parse_matrix(path):
    out = {}
    for line in open(path):
        m = re.match(r'^(C\d\d-\d+) fired:\[(.*?)\] rules:\[(.*?)\]', line)
        if m:
            out[m.group(1)] = (m.group(2).split(), m.group(3).split())
        elif 'PATCH-DOES-NOT-APPLY' in line:
            out[line.split()[0]] = None
    return out


def parse_verify(path):
    out = {}
    for line in open(path):
        p = line.split(None, 1)
        if len(p) == 2 and re.match(r'^C\d\d-\d+$', p[0]):
            out[p[0]] = p[1].strip()
    return out


def needs_section(notes):
    lines = notes.splitlines()
    start = None
    for i, l in enumerate(lines):
        if re.search(r'needs? to manifest', l, re.I) and (l.startswith('#') or l.startswith('**')):
            start = i
            break
    if start is None:
        return ''
    body = []
    first = lines[start]
    # "**What it needs to manifest (all of):**" style keeps text on following lines
    for l in lines[start + 1:]:
        if l.startswith('#') or re.match(r'^\*\*[A-Z].*\*\*', l):
            break
        body.append(l)
    txt = '\n'.join(body).strip()
    if not txt:
        txt = first
    return txt[:1200]


def main():
    args = sys.argv[1:]
    matrix = parse_matrix(args[0])
    verifies, firsts = [], {}
    i = 1
    while i < len(args):
        if args[i] == '--verify':
            verifies.append((parse_verify(args[i + 1]), args[i + 2]))
            i += 3
        elif args[i] == '--first':
            firsts[int(args[i + 1])] = parse_matrix(args[i + 2])
            i += 3
        else:
            raise SystemExit('bad arg ' + args[i])
    n = 0
    for s in sorted(os.listdir(SEEDED)):
        d = os.path.join(SEEDED, s)
        if not re.match(r'^C\d\d-\d+$', s) or not os.path.isdir(d):
            continue
        mp = os.path.join(d, 'meta.json')
        if os.path.exists(mp):
            meta = json.load(open(mp))
        else:
            k = int(s.split('-')[1])
            kk = k - (1 if s.startswith('C14-') and k >= 9 else 0)  # C14 has one extra round-5 seed
            rnd = 8 if kk >= 13 else 7 if kk >= 11 else (6 if kk >= 9 else (5 if kk >= 7 else (4 if kk >= 5 else None)))
            if kk >= 13:
                # rounds 8-10 did not give every property two seeds: the round is read off the commit that added the seed
                import subprocess
                h = subprocess.run(['git', '-C', '/verif', 'log', '--diff-filter=A', '--format=%H', '--', 'seeded/%s/patch.diff' % s], capture_output=True, text=True).stdout.split()
                if not h:
                    rnd = 10
                else:
                    r8 = subprocess.run(['git', '-C', '/verif', 'merge-base', '--is-ancestor', h[-1], '52b2c15']).returncode == 0
                    r9 = subprocess.run(['git', '-C', '/verif', 'merge-base', '--is-ancestor', h[-1], '0fe5490']).returncode == 0
                    rnd = 8 if r8 else (9 if r9 else 10)
            notes = open(os.path.join(d, 'notes.md')).read() if os.path.exists(os.path.join(d, 'notes.md')) else ''
            demo = open(os.path.join(d, 'demo_test.go')).read()
            pkg = re.search(r'^package (\w+)', demo, re.M).group(1)
            place = 'repository root' if pkg in ('coregex', 'coregex_test') else pkg.replace('_test', '') + '/'
            meta = {
                'property': s.split('-')[0],
                'round': rnd,
                'needs_to_manifest': needs_section(notes),
                'demo': {'file': 'demo_test.go', 'place_in': place, 'needs_race_detector': s.startswith('C06-')},
            }
        vl = os.path.join(d, 'verify.log')
        if 'verified' not in meta and os.path.exists(vl):
            # the intake's own record (tools/seedcheck.sh): three sections
            txt = open(vl).read()
            sec = re.split(r'^== ', txt, flags=re.M)
            res = {}
            for part in sec:
                if part.startswith('demo without change'):
                    res['demo-without'] = 'ok' if re.search(r'^ok\s', part, re.M) else 'NOT-OK'
                elif part.startswith('build + suite with change'):
                    res['suite-fail-lines'] = len(re.findall(r'^(--- FAIL|FAIL)', part, re.M))
                elif part.startswith('demo with change'):
                    res['demo-with'] = 'FAIL' if re.search(r'^(--- FAIL|FAIL)', part, re.M) else 'NOT-FAILING'
            if 'PATCH DOES NOT APPLY' in txt:
                res = {'patch': 'did not apply at intake'}
            meta['verified'] = {
                'how': 'tools/seedcheck.sh at intake, in a scratch worktree of /repo HEAD of that time: demo passes without the change; go build ./... and the full suite pass with the change; demo fails with the change (log: verify.log)',
                'result': ' '.join('%s=%s' % (k, res[k]) for k in res),
            }
        for log, commit in verifies:
            if s in log:
                meta['verified'] = {
                    'how': 'tools/seedverify.sh against /repo at %s in a scratch worktree: demo passes without the change; go build ./... and the full suite pass with the change; demo fails with the change' % commit,
                    'result': log[s],
                }
        meta['checks_run'] = 'tools/seedmatrix.sh (vstatic check-all: every claimed check, quick tier, against a scratch copy of /repo with the patch applied)'
        if s in matrix and matrix[s] is not None:
            checks, rules = matrix[s]
            meta['detected_by_checks'] = checks
            meta['detected_by_rules'] = rules
            meta['detected'] = bool(checks)
        rnd = meta.get('round')
        if rnd in firsts and s in firsts[rnd] and firsts[rnd][s] is not None:
            meta['detected_at_first_contact'] = bool(firsts[rnd][s][0])
            meta['first_contact_rules'] = firsts[rnd][s][1]
        if os.path.exists(os.path.join(d, 'patch.orig.diff')) and 'patch_note' not in meta:
            meta['patch_note'] = 'patch.diff was re-based onto later fix commits of /repo (same change against the new text); the agent\'s original is patch.orig.diff'
        json.dump(meta, open(mp, 'w'), indent=1)
        n += 1
    print('wrote', n, 'meta.json')


if __name__ == '__main__':
    main()
