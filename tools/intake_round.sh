#!/bin/bash
# dev helper: take both changes of a seeding agent (/tmp/seed/<P>-out) into /verif/seeded under the next free indices,
# with verification and first contact of the current rule set (seedintake.sh / seedcheck.sh). usage: intake_round.sh <Cxx> [race]
P=$1; RACE=${2:-}
[ "$P" = C06 ] && RACE=-race
last=$(ls /verif/seeded | grep "^$P-" | sed "s/$P-//" | sort -n | tail -1)
for k in 1 2; do
  [ -f /tmp/seed/$P-out/change$k.diff ] || { echo "$P change$k missing"; continue; }
  n=$((last + k))
  SV=/tmp/sv.$P /verif/tools/seedintake.sh /tmp/seed/$P-out $k $P-$n $RACE > /tmp/seed/$P-out/intake$k.log 2>&1
  echo "$P-$n: $(grep -A2 'demo without' /tmp/seed/$P-out/intake$k.log | tail -1 | cut -c1-60) | suite: $(sed -n '/build + suite/,/demo with change/p' /tmp/seed/$P-out/intake$k.log | grep -c FAIL) fail-lines | with: $(grep -A4 'demo with change' /tmp/seed/$P-out/intake$k.log | grep -E '^(FAIL|ok|---)' | tail -1 | cut -c1-60) | fired: $(grep -E '^--- C' /tmp/seed/$P-out/intake$k.log | tr '\n' ' ')"
done
[ -f /tmp/seed/$P-out/preexisting.md ] && cp /tmp/seed/$P-out/preexisting.md /verif/seeded/_preexisting_round${ROUND:-10}_$P.md
