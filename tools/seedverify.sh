#!/bin/bash
# dev helper: re-verify stored seeds against /repo HEAD in a scratch worktree: demo passes without the change,
# build + suite pass with it, demo fails with it. One verdict line per seed. usage: seedverify.sh [seed ...]
cd /verif
seeds=${@:-$(ls seeded)}
SV=${SV:-/tmp/svv}
for s in $seeds; do
  D=/verif/seeded/$s
  git -C /repo worktree remove --force $SV 2>/dev/null; rm -rf $SV
  git -C /repo worktree add -q --detach $SV HEAD || { echo "$s WORKTREE-FAIL"; continue; }
  demo=$D/demo_test.go
  pkg=$(grep -m1 '^package ' $demo | awk '{print $2}')
  case $pkg in
    coregex|coregex_test) dir=. ;;
    lazy|lazy_test) dir=dfa/lazy ;;
    onepass|onepass_test) dir=dfa/onepass ;;
    *) dir=$(echo $pkg | sed 's/_test$//') ;;
  esac
  race=""; grep -qi "needs_race_detector\": true" $D/meta.json 2>/dev/null && race="-race"
  case $s in C06-*) race="-race";; esac
  run=$(grep -o 'func Test[A-Za-z0-9_]*' $demo | sed 's/func //' | paste -sd'|')
  cp $demo $SV/$dir/zz_seed_demo_test.go
  a=$(cd $SV && GOPROXY=off go test -mod=mod -vet=off -count=1 $race -run "^($run)\$" ./$dir 2>&1 | tail -1 | awk '{print $1}')
  if ! git -C $SV apply $D/patch.diff 2>/dev/null; then echo "$s before=$a PATCH-DOES-NOT-APPLY"; continue; fi
  rm $SV/$dir/zz_seed_demo_test.go
  b=$(cd $SV && go build ./... 2>&1 | head -1)
  c=$(cd $SV && GOPROXY=off go test -mod=mod -vet=off -count=1 ./... 2>&1 | grep -v "no test files" | grep -v "^ok" | grep -c "^FAIL\|^---")
  cp $demo $SV/$dir/zz_seed_demo_test.go
  d=$(cd $SV && GOPROXY=off go test -mod=mod -vet=off -count=1 $race -run "^($run)\$" ./$dir 2>&1 | tail -1 | awk '{print $1}')
  echo "$s demo-without=$a build=${b:-ok} suite-fail-lines=$c demo-with=$d"
done
git -C /repo worktree remove --force $SV 2>/dev/null; rm -rf $SV
