#!/bin/bash
# dev helper: verify a seeded change (patch + demo) in a scratch worktree, then run every claimed check against it.
# usage: seedcheck.sh <patch> <demo_test.go> [race]
set -u
PATCH=$1; DEMO=$2; RACE=${3:-}
SV=${SV:-/tmp/sv}
git -C /repo worktree remove --force $SV 2>/dev/null; rm -rf $SV
git -C /repo worktree add -q --detach $SV HEAD || exit 9
cd $SV
pkg=$(grep -m1 '^package ' $DEMO | awk '{print $2}')
case $pkg in
  coregex|coregex_test) dir=. ;;
  lazy|lazy_test) dir=dfa/lazy ;;
  onepass|onepass_test) dir=dfa/onepass ;;
  *) dir=$(echo $pkg | sed 's/_test$//') ;;
esac
cp $DEMO $dir/zz_seed_demo_test.go
run=$(grep -o 'func Test[A-Za-z0-9_]*' $DEMO | sed 's/func //' | paste -sd'|')
echo "== demo without change (expect PASS) [$dir: $run]"
GOPROXY=off go test -mod=mod -vet=off -count=1 $RACE -run "^($run)\$" ./$dir 2>&1 | tail -3
if ! git apply --check $PATCH 2>/dev/null; then echo "PATCH DOES NOT APPLY to current HEAD"; git apply --check $PATCH 2>&1 | head -3; exit 8; fi
git apply $PATCH
echo "== build + suite with change (expect PASS)"
rm $dir/zz_seed_demo_test.go
go build ./... 2>&1 | head -3
GOPROXY=off go test -mod=mod -vet=off -count=1 ./... 2>&1 | grep -v "no test files" | grep -v "^ok" | head -10
cp $DEMO $dir/zz_seed_demo_test.go
echo "== demo with change (expect FAIL)"
GOPROXY=off go test -mod=mod -vet=off -count=1 $RACE -run "^($run)\$" ./$dir 2>&1 | tail -4 | cut -c1-200
rm $dir/zz_seed_demo_test.go
echo "== vstatic checks against the changed tree"
cd /verif
for p in $(python3 -c "import json;print(' '.join(c['property_id'] for c in json.load(open('/verif/MANIFEST.json'))['checks']))"); do
  out=$(VSTATIC_REPO=$SV VSTATIC_EVIDENCE_DIR=$SV-evidence ./bin/vstatic check -property $p -tier quick 2>&1)
  rc=$?
  if [ $rc -ne 0 ]; then echo "--- $p exit=$rc"; echo "$out" | grep -E "^(VIOLATED|UNDECIDED|ANALYSIS-FAILURE|    key=)" | cut -c1-260 | head -8; fi
done
git -C /repo worktree remove --force $SV; rm -rf $SV-evidence
