#!/usr/bin/env python3
"""dev helper: append a sentence to the DECIDED text of a property in internal/rules/props_table.go.
usage: addclause.py Cxx 'sentence (R-RULE)'"""
import sys
p='/verif/internal/rules/props_table.go'
s=open(p).read()
pid,txt=sys.argv[1],sys.argv[2]
i=s.index('prop("%s"'%pid)
j=s.index('",\n\t\t"',i)
# strip trailing period of the decided text
k=j
while s[k-1] in '. ': k-=1
s=s[:k]+'; '+txt.replace('\\','\\\\').replace('"','\\"')+'.'+s[j:]
open(p,'w').write(s)
